"""C14 — optional acceleration data never changes any answer.

Metamorphic oracle: a generated repository history is driven through a generated *script* of storage operations,
accelerator writes (commit-graph, multi-pack-index, pack bitmaps, packed-refs; by dulwich or by C git) and further
history (so that the accelerators become stale).  Then the same battery of queries is run

  L  on the long-lived Repo instance that executed the script (in-memory caches, in-process bitmaps),
  A  on a fresh Repo instance opened on the repository as it is on disk,
  B  on a fresh Repo instance opened on a copy from which every accelerator file has been removed (packed-refs
     exploded into loose refs by an independent parser),
  I  on B again after every pack index has been regenerated in another idx version by ``git index-pack``.

L, A and I must give exactly B's answers.  B's answers are themselves checked against the construction-time model of
the history (vf/gen/c14_gen.py), so "both wrong the same way" does not pass.
"""

from __future__ import annotations

import hashlib
import logging
import os
import shutil

from .. import cgit
from ..core import HarnessError, run_hypothesis
from ..gen import c14_gen as G

PROPERTY = "C14"
LEVEL = "exploration"
RULE = (
    "Hypothesis-generated cases = (history spec: 4-14 commits, shapes linear/fork-merge/criss-cross/octopus(3-5 parents)/"
    "multi-root, timestamp modes, shared blobs/subtrees, annotated/lightweight/nested tags, 4 branches, "
    "pack.indexVersion None/1/2/3) x (script of 4-10 ops: advance history loose / as a new pack, pack_loose, repack, "
    "repack(exclude=unreachable), gc, git repack -ad[b], delete / move back a branch (by dulwich or by `git "
    "update-ref`), mark a commit shallow, query the live instance, write commit-graph {dulwich reachable, dulwich "
    "all, dulwich reachable=False, git, git --changed-paths}, write multi-pack-index {dulwich, git, git --bitmap}, "
    "generate_pack_bitmaps, pack-refs {dulwich all, dulwich tags, git}, install a foreign commit-graph/midx/bitmap, "
    "rename a bitmap to another pack, reopen).  Every case runs the query battery (lookups of all known and absent ids, "
    "parents, depth, shallow, merge-base, fast-forward, walker, reachable commits/objects, MissingObjectFinder, refs, "
    "peeled refs) on live/fresh/stripped/re-indexed variants.  Non-trivial = at least one accelerator file is present "
    "and loaded through dulwich's public getter in the accelerated run AND (it is stale: history, packs or refs "
    "changed after it was written, or it is foreign) OR the history it covers has an octopus merge OR >= 2 packs; "
    "distinct by (spec, script)."
)
ASSUMPTIONS = [
    "git 2.39.5 writes valid commit-graph / multi-pack-index / bitmap / packed-refs / idx v1,v2 files",
    "the model of reachability is the record of what the generator constructed (object id -> referenced ids); it is "
    "self-tested against `git rev-list --objects` on a fixed history",
    "removing the accelerator files on disk (and exploding packed-refs into loose refs with an independent parser) is "
    "the public switch for 'without acceleration'",
    "get_reachable_commits/get_reachable_objects are demanded to agree only for exclude=None and (objects) ancestor-"
    "closed commit sets, the way in-tree callers use them; exclude/non-closed arguments are compared but only counted",
    "answers about commits that have been pruned from the object store but are still listed in a commit-graph are "
    "compared but only counted (git has the same window)",
    "only HEAD is a symbolic ref (symrefs under refs/ + pack_refs(all=True) is C16's known finding)",
]

logging.getLogger("dulwich").setLevel(logging.CRITICAL)

ABSENT = [hashlib.sha1(b"c14 absent %d" % i).hexdigest().encode() for i in range(4)]
ACCEPTED_LOAD_ERRORS = ("ValueError", "ChecksumMismatch")  # documented load-time rejections of a mismatched file


# ---------------------------------------------------------------------------
# independent handling of the accelerator files


def explode_packed_refs(gitdir: str):
    """Turn packed-refs into loose refs (loose wins) and delete the file.  Own parser, from gitformat docs."""
    p = os.path.join(gitdir, "packed-refs")
    if not os.path.exists(p):
        return 0
    n = 0
    with open(p, "rb") as f:
        for line in f.read().split(b"\n"):
            if not line or line.startswith(b"#") or line.startswith(b"^"):
                continue
            sha, name = line.split(b" ", 1)
            if len(sha) != 40:
                raise HarnessError(f"unparsable packed-refs line {line!r}")
            dst = os.path.join(os.fsencode(gitdir), name)
            if not os.path.exists(dst):
                os.makedirs(os.path.dirname(dst), exist_ok=True)
                with open(dst, "wb") as g:
                    g.write(sha + b"\n")
                n += 1
    os.unlink(p)
    return n


def accel_files(gitdir: str):
    """{kind: [paths]} of the accelerator files present."""
    out = {"cg": [], "midx": [], "bitmap": [], "packed-refs": []}
    info = os.path.join(gitdir, "objects", "info")
    p = os.path.join(info, "commit-graph")
    if os.path.exists(p):
        out["cg"].append(p)
    p = os.path.join(info, "commit-graphs")
    if os.path.isdir(p):
        out["cg"].append(p)
    pd = os.path.join(gitdir, "objects", "pack")
    if os.path.isdir(pd):
        for n in sorted(os.listdir(pd)):
            if n.startswith("multi-pack-index"):
                out["midx"].append(os.path.join(pd, n))
            elif n.endswith(".bitmap") or n.endswith(".rev"):
                out["bitmap"].append(os.path.join(pd, n))
    p = os.path.join(gitdir, "packed-refs")
    if os.path.exists(p):
        out["packed-refs"].append(p)
    return out


def strip_accelerators(gitdir: str, kinds=("cg", "midx", "bitmap", "packed-refs")):
    files = accel_files(gitdir)
    for k in kinds:
        if k == "packed-refs":
            explode_packed_refs(gitdir)
            continue
        for p in files[k]:
            if os.path.isdir(p):
                shutil.rmtree(p)
            else:
                os.chmod(p, 0o644)
                os.unlink(p)


def _file_digest(path):
    try:
        with open(path, "rb") as f:
            return hashlib.sha1(f.read()).hexdigest()
    except FileNotFoundError:
        return None


def pack_basenames(gitdir: str):
    pd = os.path.join(gitdir, "objects", "pack")
    if not os.path.isdir(pd):
        return []
    names = set(os.listdir(pd))
    return sorted(os.path.join(pd, n[:-5]) for n in names if n.endswith(".pack") and n[:-5] + ".idx" in names)


def idx_version(path: str) -> int:
    with open(path, "rb") as f:
        head = f.read(8)
    if head[:4] != b"\377tOc":
        return 1
    return int.from_bytes(head[4:8], "big")


def reindex_packs(gitdir: str):
    """Regenerate every pack index with git in another version (v1 <-> v2).  Returns versions written."""
    vers = []
    for base in pack_basenames(gitdir):
        idx = base + ".idx"
        new = 1 if idx_version(idx) != 1 else 2
        os.chmod(idx, 0o644)
        os.unlink(idx)
        rc, _, err = cgit.git(["index-pack", f"--index-version={new}", "-o", idx, base + ".pack"], cwd=gitdir, check=False)
        if rc != 0:
            raise HarnessError(f"git index-pack failed on a stored pack: {err[:300]!r}")
        vers.append(new)
    return vers


# ---------------------------------------------------------------------------
# foreign accelerator files (built once per process from an unrelated history)

_FOREIGN = {}

_FOREIGN_SPEC = {
    "salt": 97, "idxver": None,
    "commits": [[[], 5, 1, 0], [[0], 6, 9, 0], [[0], 7, 17, 1], [[1, 2], 8, 3, 0], [[3], 9, 30, 0], [[], 9, 2, 2],
                [[4, 5, 2], 10, 11, 0]],
    "tags": [[3, "a", 3, 0]],
}


def foreign_files(scratch_root: str):
    if _FOREIGN:
        return _FOREIGN
    from dulwich.repo import Repo

    path = os.path.join(scratch_root, "foreign")
    os.makedirs(path)
    r = Repo.init_bare(path)
    try:
        h = G.History(_FOREIGN_SPEC)
        while not h.done:
            new, refs = h.next_commit()
            for o in new:
                r.object_store.add_object(o)
            for k, v in refs.items():
                r.refs[k] = v
        r.refs.set_symbolic_ref(b"HEAD", G.branch_ref(0))
    finally:
        r.close()
    cgit.git(["repack", "-adb"], cwd=path)
    cgit.git(["commit-graph", "write", "--reachable"], cwd=path)
    cgit.git(["multi-pack-index", "write"], cwd=path)
    files = accel_files(path)
    _FOREIGN["ids"] = [h.cids[0], h.cids[-1], h.objs[h.cids[-1]][1][0]]  # ids that only the foreign files know
    with open(files["cg"][0], "rb") as f:
        _FOREIGN["cg"] = f.read()
    with open([p for p in files["midx"] if p.endswith("multi-pack-index")][0], "rb") as f:
        _FOREIGN["midx"] = f.read()
    with open([p for p in files["bitmap"] if p.endswith(".bitmap")][0], "rb") as f:
        _FOREIGN["bitmap"] = f.read()
    shutil.rmtree(path)
    return _FOREIGN


# ---------------------------------------------------------------------------
# executing a script


class Abandon(Exception):
    """A script operation itself failed; the case gives no verdict (counted)."""


class Exec:
    def __init__(self, root: str, case):
        from dulwich.repo import Repo

        self.root = root
        self.path = os.path.join(root, "a")
        self.case = case
        self.spec = case["spec"]
        self.h = G.History(self.spec)
        self.refs = {}  # model: direct refs
        self.git_ok = self.spec.get("idxver") != 3  # C git has no idx v3
        self.acc = {}  # kind -> {"writer": str, "stale": bool, "foreign": bool}
        self.labels = set()
        self.skipped = 0
        self.dulwich_packed_refs = False
        self.shallow = set()
        self.pack_sets = None
        self.pruned_ids = set()
        self.writers = {}
        os.makedirs(self.path)
        r = Repo.init_bare(self.path)
        try:
            if self.spec.get("idxver"):
                cfg = r.get_config()
                cfg.set((b"pack",), b"indexVersion", str(self.spec["idxver"]).encode())
                cfg.write_to_path()
            r.refs.set_symbolic_ref(b"HEAD", G.branch_ref(0))
        finally:
            r.close()
        self.repo = Repo(self.path)

    # -- bookkeeping -----------------------------------------------------------------------
    def stale(self, *kinds):
        for k in kinds:
            if k in self.acc:
                self.acc[k]["stale"] = True

    def wrote(self, kind, writer, foreign=False):
        self.acc[kind] = {"writer": writer, "stale": foreign, "foreign": foreign}
        self.writers.setdefault(kind, []).append(writer)
        self.labels.add(f"acc:{kind}/{writer}")

    def reopen(self):
        from dulwich.repo import Repo

        self.repo.close()
        self.repo = Repo(self.path)

    def close(self):
        self.repo.close()

    def git(self, args):
        if not self.git_ok:
            self.skipped += 1
            return False
        rc, _, err = cgit.git(args, cwd=self.path, check=False)
        if rc != 0:
            self.labels.add("git-op-failed:" + args[0])
            self.skipped += 1
            return False
        return True

    def _take(self, k):
        objs, refs = [], {}
        for _ in range(k):
            if self.h.done:
                break
            new, r = self.h.next_commit()
            objs += new
            if self.pruned_ids:
                # the new commit may build on objects that a pruning operation dropped (a parent on a deleted branch,
                # a blob of an old tree): they are stored again, like a fetch would.  Decided from the model, never
                # by asking the store.
                again = self.h.closure(self.h.last_tips) & self.pruned_ids
                objs += [self.h.shafiles[i] for i in sorted(again)]
                self.pruned_ids -= again
            refs.update(r)
        return objs, refs

    def _note_pruning(self):
        # C git cuts reachability at the shallow boundary; dulwich's gc does not.  Over-approximating what may have
        # been dropped is harmless (it is only stored again when needed).
        self.pruned_ids |= set(self.h.objs) - self.h.closure(self.refs.values(), self.shallow)

    def _set_refs(self, refs):
        for name, val in refs.items():
            self.repo.refs[name] = val
            self.refs[name] = val
        if refs:
            self.stale("packed-refs", "cg", "bitmap")

    # -- operations ------------------------------------------------------------------------
    def op(self, o):
        kind = o[0]
        store = self.repo.object_store
        if kind == "advance":
            objs, refs = self._take(o[1])
            if not objs and not refs:
                self.skipped += 1
                return
            for ob in objs:
                store.add_object(ob)
            self._set_refs(refs)
        elif kind == "fetchpack":
            objs, refs = self._take(o[1])
            if not objs and not refs:
                self.skipped += 1
                return
            if objs:
                store.add_objects([(ob, None) for ob in objs])
                self.stale("midx")
            self._set_refs(refs)
        elif kind == "pack_loose":
            if store.pack_loose_objects():
                self.stale("midx", "bitmap")
        elif kind == "repack":
            store.repack()
            self.stale("midx", "bitmap")
        elif kind == "prune":
            unreachable = set(self.h.objs) - self.h.closure(self.refs.values())
            self._note_pruning()
            store.repack(exclude=unreachable) if unreachable else store.repack()
            self.stale("midx", "bitmap")
            if unreachable:
                self.stale("cg")
                self.labels.add("pruned")
        elif kind == "gc":
            from dulwich.gc import garbage_collect

            self._note_pruning()
            garbage_collect(self.repo, prune=True, grace_period=None)
            self.stale("midx", "bitmap", "cg", "packed-refs")
            if os.path.exists(os.path.join(self.path, "packed-refs")):
                self.wrote("packed-refs", "dulwich-gc")
                self.dulwich_packed_refs = True
        elif kind == "git_repack":
            if not self.git_ok:
                self.skipped += 1
                return
            self.repo.close()
            self._note_pruning()
            ok = self.git(["repack", "-adb" if o[1] else "-ad"])
            from dulwich.repo import Repo

            self.repo = Repo(self.path)
            if ok:
                self.stale("midx")
                self.acc.pop("bitmap", None)
                if any(p.endswith(".bitmap") and "multi-pack-index" not in p for p in accel_files(self.path)["bitmap"]):
                    self.wrote("bitmap", "git")  # bare repositories get one even without -b (repack.writeBitmaps)
        elif kind == "delref":
            name = G.branch_ref(o[1])
            if name not in self.refs:
                self.skipped += 1
                return
            if len(o) > 2 and o[2] == "git":  # another process deletes it (rewrites packed-refs if it was packed)
                if not self.git(["update-ref", "-d", name.decode()]):
                    return
                self.labels.add("ref-changed-by-git")
            else:
                del self.repo.refs[name]
            del self.refs[name]
            self.stale("packed-refs", "cg", "bitmap")
            self.labels.add("ref-deleted")
        elif kind == "moveref":
            name = G.branch_ref(o[1])
            cur = self.refs.get(name)
            ps = self.h.parents_of(cur) if cur else []
            if not ps:
                self.skipped += 1
                return
            if o[2] == "git":
                if not self.git(["update-ref", name.decode(), ps[0].decode()]):
                    return
                self.labels.add("ref-changed-by-git")
            else:
                self.repo.refs[name] = ps[0]
            self.refs[name] = ps[0]
            self.stale("packed-refs", "cg", "bitmap")
            self.labels.add("ref-moved-back")
        elif kind == "retag":
            # a ref that packed-refs lists without a peeled line (lightweight tag) is re-pointed, as a loose ref, at an
            # annotated tag object: what packed-refs knows about the name ("nothing to peel") is about the old value
            light = sorted(n for n, v in self.refs.items() if n.startswith(b"refs/tags/") and self.h.objs[v][0] != b"tag")
            annot = sorted({v for v in self.refs.values() if self.h.objs[v][0] == b"tag"})
            if not light or not annot:
                self.skipped += 1
                return
            name, tgt = light[o[1] % len(light)], annot[o[1] % len(annot)]
            if len(o) > 2 and o[2] == "git":
                if not self.git(["update-ref", name.decode(), tgt.decode()]):
                    return
                self.labels.add("ref-changed-by-git")
            else:
                self.repo.refs[name] = tgt
            self.refs[name] = tgt
            self.stale("packed-refs")
            self.labels.add("lightweight-tag-repointed-at-annotated-tag")
        elif kind == "cg":
            w = o[1]
            if not self.refs:
                self.skipped += 1
                return
            if w == "dulwich":
                store.write_commit_graph(list(self.repo.refs.as_dict().values()), reachable=True)
            elif w == "dulwich-all":
                store.write_commit_graph()
            elif w == "dulwich-tips":
                store.write_commit_graph(list(self.repo.refs.as_dict().values()), reachable=False)
            else:
                args = ["commit-graph", "write", "--reachable"] + (["--changed-paths"] if w == "git-bloom" else [])
                before = _file_digest(os.path.join(self.path, "objects", "info", "commit-graph"))
                if not self.git(args):
                    return
                if before == _file_digest(os.path.join(self.path, "objects", "info", "commit-graph")):
                    # git writes nothing in a shallow repository (and exits 0): whatever was there is still there
                    self.labels.add("git-commit-graph-write-was-a-no-op")
                    return
            if accel_files(self.path)["cg"]:
                self.wrote("cg", w)
        elif kind == "midx":
            w = o[1]
            if not pack_basenames(self.path):
                store.pack_loose_objects()  # an index over packs needs a pack
            if not pack_basenames(self.path):
                self.skipped += 1
                return
            if w == "dulwich":
                store.write_midx()
            else:
                if not self.git(["multi-pack-index", "write"] + (["--bitmap"] if w == "git-bitmap" else [])):
                    return
            if accel_files(self.path)["midx"]:
                self.wrote("midx", w)
                self.labels.add("midx-over-packs:%s" % min(len(pack_basenames(self.path)), 3))
        elif kind == "bitmap":
            if not pack_basenames(self.path):
                store.pack_loose_objects()
            if not pack_basenames(self.path) or not self.refs:
                self.skipped += 1
                return
            store.generate_pack_bitmaps(self.repo.refs.as_dict())
            self.wrote("bitmap", "dulwich")
        elif kind == "pack_refs":
            w = o[1]
            if not self.refs:
                self.skipped += 1
                return
            if w == "git":
                if not self.git(["pack-refs", "--all"]):
                    return
            else:
                self.repo.refs.pack_refs(all=(w == "dulwich"))
                self.dulwich_packed_refs = True
            if os.path.exists(os.path.join(self.path, "packed-refs")):
                self.wrote("packed-refs", w)
        elif kind == "foreign":
            what = o[1]
            data = foreign_files(self.root)[what]
            if what == "cg":
                d = os.path.join(self.path, "objects", "info")
                os.makedirs(d, exist_ok=True)
                dst = os.path.join(d, "commit-graph")
            elif what == "midx":
                if not pack_basenames(self.path):
                    self.skipped += 1
                    return
                dst = os.path.join(self.path, "objects", "pack", "multi-pack-index")
            else:
                free = [b for b in pack_basenames(self.path) if not os.path.exists(b + ".bitmap")]
                if not free:
                    self.skipped += 1
                    return
                dst = free[0] + ".bitmap"
            if os.path.exists(dst):
                os.chmod(dst, 0o644)
                os.unlink(dst)
            with open(dst, "wb") as f:
                f.write(data)
            self.reopen()  # a foreign file appears while no instance has the old one cached
            self.wrote({"cg": "cg", "midx": "midx", "bitmap": "bitmap"}[what], "foreign", foreign=True)
        elif kind == "swapbitmap":
            bases = pack_basenames(self.path)
            have = [b for b in bases if os.path.exists(b + ".bitmap")]
            free = [b for b in bases if not os.path.exists(b + ".bitmap")]
            if not have or not free:
                self.skipped += 1
                return
            self.repo.close()
            os.rename(have[0] + ".bitmap", free[0] + ".bitmap")
            from dulwich.repo import Repo

            self.repo = Repo(self.path)
            self.wrote("bitmap", "swapped", foreign=True)
        elif kind == "reopen":
            self.reopen()
        elif kind == "query":
            # use the long-lived instance in the middle of the script, so that it caches whatever it caches
            if self.refs:
                run_battery(self.repo, Plan(self), families={"lookup", "parents", "refs", "reach"})
        elif kind == "shallow":
            if not self.h.cids:
                self.skipped += 1
                return
            c = self.h.cids[o[1] % len(self.h.cids)]
            self.repo.update_shallow({c}, None)
            self.shallow.add(c)
            self.labels.add("shallow")
        else:
            raise HarnessError(f"unknown op {o!r}")

    def run_script(self):
        for o in self.case["script"]:
            try:
                self.op(tuple(o))
            except HarnessError:
                raise
            except Exception as e:  # a *writer* failed: not a query answer; counted, never a violation
                raise Abandon(f"{o[0]}:{type(e).__name__}") from e


# ---------------------------------------------------------------------------
# the query battery


def outcome(fn):
    try:
        return ("ok", fn())
    except Exception as e:  # the system under test answering with an exception is an outcome to compare
        return ("exc", type(e).__name__, str(e)[:160])


def _objsig(o, want):
    raw = o.as_raw_string()
    real = hashlib.sha1(o.type_name + b" " + str(len(raw)).encode() + b"\0" + raw).hexdigest().encode()
    return (o.type_name, real == want)


def _rawsig(t, want):
    from dulwich.objects import object_class

    num, data = t
    name = object_class(num).type_name
    real = hashlib.sha1(name + b" " + str(len(data)).encode() + b"\0" + data).hexdigest().encode()
    return (name, real == want)


class Plan:
    """What to ask, derived from the model only (the same plan for every variant)."""

    def __init__(self, ex: Exec):
        h = ex.h
        self.refs = dict(ex.refs)
        self.reachable = h.closure(self.refs.values(), ex.shallow)  # what must be present in the store
        self.unreachable = sorted(set(h.objs) - self.reachable)
        reach_sorted = sorted(self.reachable)
        commits_tags = [i for i in sorted(h.objs) if h.objs[i][0] in (b"commit", b"tag")]  # reachable or not
        others = [i for i in reach_sorted if h.objs[i][0] not in (b"commit", b"tag")]
        step = max(1, len(others) // 24)
        self.ids = list(dict.fromkeys(
            commits_tags + others[::step] + self.unreachable[:40] + ABSENT + list(_FOREIGN.get("ids", ()))))
        self.prefixes = sorted({i[:2] for i in self.ids[:6]} | {i[:5] for i in self.ids[-8:]} | {self.ids[0][:7]})
        self.commits = [c for c in h.cids if c in self.reachable]
        self.lost_commits = [c for c in h.cids if c not in self.reachable]
        heads = []
        for name in sorted(self.refs):
            p = h.peel(self.refs[name])
            if h.objs[p][0] == b"commit" and p not in heads:
                heads.append(p)
        self.heads = heads
        self.ref_targets = sorted(set(self.refs.values()))
        cs = self.commits
        pairs = []
        for i, a in enumerate(heads[:3]):
            for b in heads[i + 1:4]:
                pairs.append((a, b))
        for i in range(min(3, len(cs) // 2)):
            pairs.append((cs[i], cs[-1 - i]))
            pairs.append((cs[-1 - i], cs[len(cs) // 2]))
        self.pairs = list(dict.fromkeys(p for p in pairs if p[0] != p[1]))[:8]
        self.walks = [((hd,), ()) for hd in heads[:3]]
        if len(heads) >= 2:
            self.walks.append(((heads[0],), (heads[1],)))
            self.walks.append((tuple(heads), ()))
        # reachability provider: (heads, exclude); strict only when exclude is empty
        self.rc = [((hd,), ()) for hd in heads[:3]] + ([(tuple(heads), ())] if len(heads) > 1 else [])
        if len(heads) >= 2:
            self.rc.append(((heads[0],), tuple(sorted(h.commit_closure([heads[1]])))))  # closed exclude: counted only
            self.rc.append(((heads[0],), (heads[1],)))  # non-closed exclude: counted only
        self.ro = []
        for hd in heads[:2]:
            self.ro.append((tuple(sorted(h.commit_closure([hd]))), (), True))
        if len(heads) >= 2:
            self.ro.append((tuple(sorted(h.commit_closure([heads[0]]))), tuple(sorted(h.commit_closure([heads[1]]))), False))
            self.ro.append(((heads[0],), (), False))  # not ancestor-closed: counted only
        # transfers
        mof = [((), tuple(heads))]
        for a, b in self.pairs[:3]:
            mof.append(((a,), (b,)))
        tags = [i for i in self.ref_targets if h.objs[i][0] == b"tag"]
        if tags and cs:
            mof.append(((cs[0],), (tags[0],)))
            mof.append(((tags[0],), tuple(heads)))
        if len(cs) >= 3:
            mof.append(((cs[len(cs) // 2], ABSENT[0]), tuple(heads)))
        self.mof = list(dict.fromkeys(mof))[:7]
        # MissingObjectFinder starts with get_reachable_commits(<commits of haves>): ask that root query too, so that
        # a wrong transfer set is attributed to it and not reported as a second root cause
        for haves, _w in self.mof:
            hc = tuple(sorted({h.peel(x) for x in haves if x in h.objs} & set(h.cids)))
            if hc and (hc, ()) not in self.rc:
                self.rc.append((hc, ()))


def run_battery(repo, plan: Plan, families=None):
    """{key: outcome}.  Every value is plain comparable data."""
    from dulwich.graph import can_fast_forward, find_merge_base
    from dulwich.object_store import MissingObjectFinder, find_shallow, get_depth

    s = repo.object_store
    res = {}
    want = lambda f: families is None or f in families
    if want("lookup"):
        for i in plan.ids:
            res[("lookup", "in", i)] = outcome(lambda: i in s)
            res[("lookup", "packed", i)] = outcome(lambda: s.contains_packed(i))
            res[("lookup", "loose", i)] = outcome(lambda: s.contains_loose(i))
            res[("lookup", "getitem", i)] = outcome(lambda: _objsig(s[i], i))
            res[("lookup", "get_raw", i)] = outcome(lambda: _rawsig(s.get_raw(i), i))
        for p in plan.prefixes:
            res[("lookup", "prefix", p)] = outcome(lambda: tuple(sorted(s.iter_prefix(p))))
    if want("parents"):
        cg = outcome(lambda: s.get_commit_graph())
        if cg[0] == "ok" and cg[1] is not None:
            for c in plan.commits + plan.lost_commits:
                res[("info", "cg-parents", c)] = outcome(lambda: cg[1].get_parents(c))
        pp = repo.parents_provider()
        for c in plan.commits:
            res[("parents", c)] = outcome(lambda: list(pp.get_parents(c)))
        for c in plan.lost_commits:
            res[("lost-parents", c)] = outcome(lambda: list(pp.get_parents(c)))
    if want("graph"):
        for hd in plan.heads[:4]:
            res[("graph", "depth", hd)] = outcome(lambda: get_depth(s, hd))
        if plan.ref_targets:
            for d in (1, 2, 3):
                res[("graph", "shallow", d)] = outcome(
                    lambda: tuple(tuple(sorted(x)) for x in find_shallow(s, plan.ref_targets, d)))
        for a, b in plan.pairs:
            res[("graph", "merge-base", a, b)] = outcome(lambda: tuple(sorted(find_merge_base(repo, [a, b]))))
            res[("graph", "ff", a, b)] = outcome(lambda: bool(can_fast_forward(repo, a, b)))
        for inc, exc in plan.walks:
            res[("graph", "walk", inc, exc)] = outcome(
                lambda: tuple(e.commit.id for e in repo.get_walker(include=list(inc), exclude=list(exc) or None)))
    if want("reach"):
        prov = outcome(lambda: s.get_reachability_provider())
        res[("reach", "provider")] = ("ok", None) if prov[0] == "ok" else prov
        if prov[0] == "ok":
            p = prov[1]
            res[("info", "provider")] = ("ok", type(p).__name__)
            for heads, excl in plan.rc:
                fam = "reach" if not excl else "reach-excl"
                res[(fam, "commits", heads, excl)] = outcome(
                    lambda: frozenset(p.get_reachable_commits(list(heads), exclude=list(excl) or None)))
            for cs, excl, strict in plan.ro:
                fam = "reach" if strict else "reach-excl"
                res[(fam, "objects", cs, excl)] = outcome(
                    lambda: frozenset(p.get_reachable_objects(list(cs), list(excl) or None)))
    if want("mof"):
        for haves, wants in plan.mof:
            res[("mof", haves, wants)] = outcome(
                lambda: frozenset(sha for sha, _ in MissingObjectFinder(s, haves=list(haves), wants=list(wants))))
    if want("refs"):
        res[("refs", "as_dict")] = outcome(lambda: dict(repo.refs.as_dict()))
        res[("refs", "allkeys")] = outcome(lambda: frozenset(repo.refs.allkeys()))
        res[("refs", "symrefs")] = outcome(lambda: dict(repo.refs.get_symrefs()))
        for name in sorted(plan.refs) + [b"HEAD", b"refs/heads/nonexistent"]:
            res[("refs", "get", name)] = outcome(lambda: repo.refs[name])
            res[("refs", "contains", name)] = outcome(lambda: name in repo.refs)
        for name in sorted(plan.refs):
            res[("peeled", "repo", name)] = outcome(lambda: repo.get_peeled(name))
            res[("peeled-cache", name)] = outcome(lambda: repo.refs.get_peeled(name))
    return res


# ---------------------------------------------------------------------------
# judging


def _tag(o):
    return "ok" if o[0] == "ok" else f"raises-{o[1]}"


def _pattern(a, b):
    """Behaviour pattern of a mismatch between outcome a (accelerated) and b (plain)."""
    if a[0] != "ok" or b[0] != "ok":
        return f"acc={_tag(a)},plain={_tag(b)}"
    va, vb = a[1], b[1]
    if isinstance(va, (set, frozenset)) and isinstance(vb, (set, frozenset)):
        if va < vb:
            return "acc-subset"
        if va > vb:
            return "acc-superset"
        return "sets-differ"
    if isinstance(va, bool) and isinstance(vb, bool):
        return f"acc={va},plain={vb}"
    if isinstance(va, (list, tuple)) and isinstance(vb, (list, tuple)) and sorted(map(repr, va)) == sorted(map(repr, vb)):
        return "order-differs"
    if isinstance(va, dict) and isinstance(vb, dict):
        if set(va) != set(vb):
            return "keys-differ"
        return "values-differ"
    return "values-differ"


def _parents_pattern(a, b):
    if a[0] != "ok" or b[0] != "ok":
        return f"acc={_tag(a)},plain={_tag(b)}"
    pa, pb = a[1], b[1]
    if len(pb) > 2 and pa == pb[:2]:
        return "octopus-truncated-to-2"
    if len(pa) < len(pb) and all(x in pb for x in pa):
        return "parents-dropped"
    return "parents-differ"


def _writer(ex, kind):
    """Accelerator kind, with its writer where the writer matters for the root cause (commit-graph, packed-refs)."""
    a = ex.acc.get(kind)
    if not a:
        return None
    wr = a["writer"]
    if kind in ("midx", "bitmap"):
        return kind  # what goes wrong is on dulwich's reading side, whoever wrote the file
    if kind == "packed-refs":
        # pack_refs(all=True/False) and gc all go through add_packed_refs; C git rewriting a packed-refs file that
        # dulwich wrote inherits what dulwich recorded (git trusts the "peeled" header)
        wr = "dulwich" if ex.dulwich_packed_refs else "git"
    if kind == "cg":
        wr = {"git-bloom": "git", "dulwich-all": "dulwich"}.get(wr, wr)
    return f"{kind}/{wr}"


def _blame(family, key, ex: Exec, provider):
    """Which accelerator the query family consults (narrow root-cause key)."""
    w = lambda kind: _writer(ex, kind)
    if family == "lookup":
        return w("midx") or "none"
    if family in ("parents", "graph", "lost-parents"):
        return w("cg") or "none"
    if family in ("reach", "reach-excl", "mof"):
        if provider == "BitmapReachability":
            return "bitmap"
        return w("cg") or w("bitmap") or "none"
    if family in ("refs", "peeled", "peeled-cache"):
        return w("packed-refs") or "none"
    return "none"


def _pack_sets(ex):
    from dulwich.objects import sha_to_hex

    if ex.pack_sets is None:
        ex.pack_sets = [{sha_to_hex(e[0]) for e in p.index.iterentries()} for p in ex.repo.object_store.packs]
    return ex.pack_sets


def _missing_outside_pack(ex, heads, missing):
    """Bucket refinement only: is everything the bitmap answer lacks stored outside the pack holding the heads?"""
    return any(set(heads) <= ps and not (missing & ps) for ps in _pack_sets(ex))


def _pack_lacks_ref_tips(ex, heads):
    """Bucket refinement only: bitmaps are built for the ref tip commits; is one of them outside the heads' pack?"""
    tips = {ex.h.peel(v) for v in ex.refs.values()}
    tips = {t for t in tips if ex.h.objs[t][0] == b"commit"}
    return any(set(heads) <= ps and not (tips <= ps) for ps in _pack_sets(ex))


def _graph_lists_missing_commit(ex, acc_res, plain_res):
    for c in ex.h.cids:
        if (acc_res.get(("info", "cg-parents", c), ("ok", None))[:2] != ("ok", None)
                and plain_res.get(("lookup", "in", c), ("ok", True))[:2] == ("ok", False)):
            return True
    return False


def _root_trees(ex, commits):
    return {ex.h.objs[c][1][0] for c in commits if c in ex.h.objs}


def _only_root_trees(ex, commits, va, vb):
    """True if the accelerated set is the plain set plus root trees of the queried commits only."""
    return va > vb and (va - vb) <= _root_trees(ex, commits)


def _short(v, n=260):
    s = repr(v)
    return s if len(s) <= n else s[:n] + "..."


def compare_variant(ex: Exec, variant: str, acc_res, plain_res, seen_patterns, foreign: bool, skip_keys=()):
    """Yield (bucket, message, report_only) for every mismatch of an accelerated variant against the plain run."""
    provider = acc_res.get(("info", "provider"), ("ok", None))[1]
    fails = []
    bad_families = set()
    order = ["lookup", "parents", "lost-parents", "graph", "reach", "reach-excl", "mof", "refs", "peeled", "peeled-cache"]
    sub = ["packed", "loose", "in", "getitem", "get_raw", "prefix"]  # lookups: root query first
    keys = sorted((k for k in plain_res if k[0] != "info"),
                  key=lambda k: (order.index(k[0]), sub.index(k[1]) if k[0] == "lookup" else 0, repr(k)))
    bad_ids = set()
    # root query of everything graph-shaped: what the loaded commit-graph itself says about a commit's parents
    # (None = not in the graph) against the construction record; independent of shallow/grafts handling above it
    for k, a in sorted(acc_res.items(), key=repr):
        if k[:2] != ("info", "cg-parents") or a[:2] == ("ok", None) or k[2] not in ex.h.objs:
            continue
        exp = ("ok", ex.h.parents_of(k[2]))
        if a[0] == "ok" and list(a[1]) == exp[1]:
            continue
        pat = _parents_pattern(a if a[0] != "ok" else ("ok", list(a[1])), exp)
        if a[0] == "ok":
            # a parent that is not in the graph at all and was dropped: the graph is not closed (one root cause);
            # a parent that is in the graph and was dropped anyway: the writer/reader lost an edge (another)
            dropped = [x for x in exp[1] if x not in a[1]]
            absent = [x for x in dropped if acc_res.get(("info", "cg-parents", x), ("ok", None))[:2] == ("ok", None)]
            if absent and all(x in exp[1] for x in a[1]):
                pat = "parents-dropped"
        blame = _writer(ex, "cg") or "none"
        if variant == "live" and blame in ("cg/git", "cg/foreign"):
            # the long-lived instance may still hold the graph an earlier writer produced
            older = [w for w in ex.writers.get("cg", []) if w.startswith("dulwich")]
            if older:
                blame = "cg/" + {"dulwich-all": "dulwich"}.get(older[-1], older[-1])
        if pat == "octopus-truncated-to-2" and blame == "cg/dulwich-tips":
            blame = "cg/dulwich"
        bad_families.add("parents")
        sig = ("parents", blame, pat)
        if sig in seen_patterns:
            continue
        seen_patterns.add(sig)
        fails.append((f"C14:parents:{blame}:{pat}",
                      f"[{variant}] the loaded commit-graph says parents({k[2]!r}) = {_short(a)}; the commit's parents are {exp[1]!r}",
                      False))
    for k in keys:
        fam = k[0]
        if fam == "lookup" and k[2] in bad_ids:
            continue  # `in` follows contains_packed etc.: one report per id
        if fam in ("parents", "lost-parents") and "parents" in bad_families:
            continue
        if fam == "peeled-cache" or k in skip_keys:
            continue  # peeled-cache: judged against the model only (None = "not cached" is a legal answer)
        a, b = acc_res.get(k), plain_res[k]
        if a is None:
            raise HarnessError(f"variant {variant} did not run query {k!r}")
        if a[:2] == b[:2]:
            continue
        # consequences of an already reported root cause in this variant are not reported again
        if fam in ("graph", "reach", "reach-excl", "mof") and "parents" in bad_families:
            continue
        if fam == "mof" and "reach" in bad_families:
            continue
        if fam == "parents":
            pat = _parents_pattern(a, b)
        elif a[0] != "ok" or b[0] != "ok":
            pat = _pattern(a, b)  # an exception names its own cause; the sub-query does not matter
        elif fam == "reach" and k[1] == "objects" and _only_root_trees(ex, k[2], a[1], b[1]):
            pat = "objects:plain-omits-root-trees"
        elif fam == "reach" and (a[1] < b[1] or (k[1] == "objects" and a[1] < b[1] | _root_trees(ex, k[2]))):
            pat = "acc-subset"  # commits or objects: the same incomplete answer
            if provider == "BitmapReachability" and _missing_outside_pack(ex, k[2], b[1] - a[1]):
                pat = "acc-subset:only-objects-outside-the-bitmapped-pack"
            elif provider == "BitmapReachability" and _pack_lacks_ref_tips(ex, k[2]):
                pat = "wrong-set:bitmapped-pack-lacks-some-ref-tip-commits"
        elif fam == "reach" and provider == "BitmapReachability" and _pack_lacks_ref_tips(ex, k[2]):
            pat = "wrong-set:bitmapped-pack-lacks-some-ref-tip-commits"
        elif fam in ("lookup", "graph", "reach", "reach-excl", "refs", "peeled"):
            pat = f"{k[1]}:{_pattern(a, b)}"
        else:
            pat = _pattern(a, b)
        report_only = fam in ("lost-parents", "reach-excl")
        if fam == "lost-parents" and b[0] == "ok":
            report_only = False  # the commit still exists in the store: its parents must not change
            fam = "parents"
            pat = _parents_pattern(a, b)
        if (fam in ("graph", "reach", "reach-excl", "mof") and a[0] == "ok" and b[0] == "exc"
                and b[1] in ("KeyError", "MissingCommitError") and _graph_lists_missing_commit(ex, acc_res, plain_res)):
            # the walk runs into a commit that was pruned (e.g. behind a shallow boundary by git) but is still in
            # the commit-graph: same class as lost-parents, compared but only counted (see ASSUMPTIONS)
            report_only = True
            pat = "stale-graph-lists-pruned-commit"
        if foreign and a[0] == "exc" and a[1] in ACCEPTED_LOAD_ERRORS:
            report_only = True  # a mismatched file may be rejected with a documented error
            pat = "rejected:" + pat
        blame = _blame(fam, k, ex, provider)
        if pat == "octopus-truncated-to-2" and blame == "cg/dulwich-tips":
            blame = "cg/dulwich"  # the same writer code drops parents 3.. whatever the commit selection
        if variant == "idx":
            blame = "idx-version"
        sig = (fam, blame, pat)
        if not report_only:
            bad_families.add(fam)
        if fam == "lookup" and k[1] != "prefix":
            bad_ids.add(k[2])
        if variant == "live" and sig in seen_patterns:
            continue  # same root cause already reported for the fresh instance
        seen_patterns.add(sig)
        tagv = ":live-instance-only" if variant == "live" else ""
        if fam == "lookup" and pat == "packed:acc=True,plain=False":
            tagv = ""  # a cached MIDX that was replaced on disk is trusted the same way as a stale one on disk
        bucket = f"C14:{fam}:{blame}:{pat}{tagv}"
        msg = f"[{variant}] query {_short(k, 200)}: accelerated run -> {_short(a)} ; without accelerators -> {_short(b)}"
        fails.append((bucket, msg, report_only))
    return fails


def check_plain_against_model(ex: Exec, plan: Plan, res):
    """The un-accelerated answers against the construction record (sound bounds only)."""
    h = ex.h
    fails = []

    def bad(fam, pat, msg):
        fails.append((f"C14:plain-vs-model:{fam}:{pat}", "[plain run vs construction model] " + msg, False))

    for i in plan.ids:
        if i in plan.reachable:
            for q in ("in", "getitem", "get_raw"):
                o = res[("lookup", q, i)]
                exp = True if q == "in" else (h.objs[i][0], True)
                if o[:2] != ("ok", exp):
                    bad("lookup", f"{q}:reachable-object:{_tag(o)}", f"{q}({i!r}) -> {_short(o)}, expected {exp!r}")
        elif i in ABSENT or i in _FOREIGN.get("ids", ()):
            if res[("lookup", "in", i)][:2] != ("ok", False) or res[("lookup", "getitem", i)][:2] != ("exc", "KeyError"):
                bad("lookup", "absent-id-found", f"absent id {i!r}: {res[('lookup', 'in', i)]!r} {res[('lookup', 'getitem', i)]!r}")
        # internal consistency of the plain run for every id
        oin, oget = res[("lookup", "in", i)], res[("lookup", "getitem", i)]
        if oin[0] == "ok" and (oin[1] is True) != (oget[0] == "ok"):
            bad("lookup", "in-vs-getitem", f"id {i!r}: in -> {oin!r} but getitem -> {_short(oget)}")
    for c in plan.commits:
        o = res[("parents", c)]
        exp = [] if c in ex.shallow else h.parents_of(c)
        if o[:2] != ("ok", exp):
            bad("parents", _tag(o), f"parents({c!r}) -> {_short(o)}, expected {exp!r}")
    for k, o in res.items():
        if ex.shallow:
            break  # behind a shallow boundary objects may legitimately be missing: graph answers are only compared
        if k[0] == "reach" and k[1] == "commits":
            exp = frozenset(h.commit_closure(k[2]))
            if o[:2] != ("ok", exp):
                bad("reach", "commits:" + (_pattern(o, ("ok", exp))), f"get_reachable_commits({k[2]!r}) -> {_short(o)}, expected {_short(sorted(exp))}")
        elif k[0] == "reach" and k[1] == "objects":
            exp = frozenset(x for x in h.closure(k[2]))
            if o[0] == "ok" and o[1] != exp and _only_root_trees(ex, k[2], exp, o[1]):
                ex.labels.add("plain-run:get_reachable_objects-omits-root-trees")  # not an accelerator matter: counted
            elif o[:2] != ("ok", exp):
                bad("reach", "objects:" + (_pattern(o, ("ok", exp))), f"get_reachable_objects(closed set of {len(k[2])}) -> {_short(o)}, expected {len(exp)} objects")
        elif k[0] == "mof":
            haves, wants = k[1], k[2]
            if o[0] != "ok":
                bad("mof", _tag(o), f"MissingObjectFinder(haves={haves!r}, wants={wants!r}) -> {_short(o)}")
                continue
            known_haves = [x for x in haves if x in h.objs]
            upper = h.closure(wants)
            lower = upper - h.closure(known_haves)
            if not (lower <= o[1] <= upper):
                bad("mof", "outside-bounds", f"MissingObjectFinder(haves={haves!r}, wants={wants!r}): missing {_short(sorted(lower - o[1]))}, extra {_short(sorted(o[1] - upper))}")
        elif k[0] == "graph" and k[1] == "walk" and not k[3]:
            exp = h.commit_closure(k[2])
            if o[0] != "ok" or set(o[1]) != exp or len(o[1]) != len(exp):
                bad("walk", _tag(o), f"walker(include={k[2]!r}) -> {_short(o)}, expected the {len(exp)} ancestors")
    o = res[("refs", "as_dict")]
    exp = dict(ex.refs)
    if G.branch_ref(0) in ex.refs:
        exp[b"HEAD"] = ex.refs[G.branch_ref(0)]
    if o[:2] != ("ok", exp):
        bad("refs", "as_dict:" + _pattern(o, ("ok", exp)), f"refs.as_dict() -> {_short(o)}, expected {_short(exp)}")
    for name in plan.refs:
        o = res[("peeled", "repo", name)]
        if o[:2] != ("ok", h.peel(plan.refs[name])):
            bad("peeled", _tag(o), f"Repo.get_peeled({name!r}) -> {_short(o)}, expected {h.peel(plan.refs[name])!r}")
    return fails


def check_midx_self(repo, ex):
    """A multi-pack-index that dulwich loads and that is not stale answers its own lookup API like the pack indexes it
    was built from: every object it lists is found where the pack's own index has it, ids it does not list are absent.
    (The object store falls back to the per-pack scan on a miss, so a wrong 'absent' never shows in store answers.)"""
    s = repo.object_store
    mo = outcome(lambda: s.get_midx())
    if mo[0] != "ok" or mo[1] is None:
        return []
    m = mo[1]
    fails = []
    blame = _writer(ex, "midx") or "none"
    by_pack = {}
    for p in s.packs:
        by_pack[os.path.basename(p._basename) if hasattr(p, "_basename") else str(p)] = p
    listed = outcome(lambda: [(bytes(sha), pn, off) for sha, pn, off in m.iterentries()])
    if listed[0] != "ok":
        return []
    ids = set()
    for raw, pn, off in listed[1]:
        ids.add(raw)
        got = outcome(lambda: m.object_offset(raw))
        if got[:2] != ("ok", (pn, off)):
            fails.append((f"C14:midx-self:{blame}:listed-object-not-found", f"the multi-pack-index lists {raw.hex()} at ({pn!r}, {off}) but object_offset() -> {_short(got)}"))
            break
        inn = outcome(lambda: raw in m)
        if inn[:2] != ("ok", True):
            fails.append((f"C14:midx-self:{blame}:listed-object-not-contained", f"the multi-pack-index lists {raw.hex()} but `in` -> {_short(inn)}"))
            break
    if not fails:
        for probe in (b"\x00" * 20, b"\xff" * 20, b"\x00" * 19 + b"\x01", b"\xff" * 19 + b"\xfe"):
            if probe not in ids:
                got = outcome(lambda: m.object_offset(probe))
                if got[:2] != ("ok", None):
                    fails.append((f"C14:midx-self:{blame}:absent-id-found", f"object_offset({probe.hex()}) -> {_short(got)} for an id the multi-pack-index does not list"))
                    break
    return fails


def check_peeled_cache(ex: Exec, plan: Plan, variant, res):
    """refs.get_peeled: None means 'not cached'; any other answer must be the true peeled value."""
    fails = []
    bad_names = set()
    for name in plan.refs:
        o = res.get(("peeled-cache", name))
        if o is None or o[:2] == ("ok", None):
            continue
        exp = ex.h.peel(plan.refs[name])
        if o[:2] != ("ok", exp):
            bad_names.add(name)
            blame = _writer(ex, "packed-refs") or "none"
            kind = "tag-not-peeled" if o[:2] == ("ok", plan.refs[name]) else ("stale-or-wrong" if o[0] == "ok" else _tag(o))
            fails.append((f"C14:peeled-cache:{blame}:{kind}",
                          f"[{variant}] refs.get_peeled({name!r}) -> {_short(o)}, the ref points at {plan.refs[name]!r} whose peeled value is {exp!r}",
                          False))
    return fails, bad_names


class Result:
    def __init__(self):
        self.fails = []  # (bucket, message)
        self.labels = set()
        self.nontrivial = False
        self.abandoned = None


def evaluate(scratch_root: str, case) -> Result:
    """Execute one case completely; no ctx, no reporting (used by search, minimiser and replay)."""
    from dulwich.repo import Repo

    out = Result()
    root = os.path.join(scratch_root, "case")
    if os.path.exists(root):
        shutil.rmtree(root)
    os.makedirs(root)
    foreign_files(root)  # the pool (and the ids only foreign files know) exists before any plan is made
    ex = Exec(root, case)
    live_open = True
    try:
        try:
            ex.run_script()
        except Abandon as e:
            out.abandoned = str(e)
            out.labels.add("abandoned:" + str(e))
            return out
        out.labels |= ex.labels
        if not ex.refs:
            out.labels.add("no-refs")
            return out
        plan = Plan(ex)
        files = accel_files(ex.path)
        present = {k for k, v in files.items() if v}
        foreign = any(a["foreign"] for a in ex.acc.values())
        # plain copy
        pathb = os.path.join(root, "b")
        shutil.copytree(ex.path, pathb, symlinks=True)
        strip_accelerators(pathb)
        rb = Repo(pathb)
        try:
            plain = run_battery(rb, plan)
        finally:
            rb.close()
        for b, m, _ro in check_plain_against_model(ex, plan, plain):
            out.fails.append((b, m))
        seen = set()
        # fresh instance on the accelerated repository
        ra = Repo(ex.path)
        try:
            fresh = run_battery(ra, plan)
            loaded = _loaded(ra, present)
            for b, m in check_midx_self(ra, ex):
                if (b,) not in seen:
                    seen.add((b,))
                    out.fails.append((b, m))
            _label_bitmap_use(out, "fresh", ra, plan)
        finally:
            ra.close()
        variants = [("fresh", fresh)]
        live = run_battery(ex.repo, plan)
        _label_bitmap_use(out, "live", ex.repo, plan)
        variants.append(("live", live))
        for name, res in variants:
            pc_fails, bad_names = check_peeled_cache(ex, plan, name, res)
            for b, m, _ro in pc_fails:
                if (b, ) not in seen:
                    seen.add((b, ))
                    out.fails.append((b, m))
            # Repo.get_peeled is derived from refs.get_peeled: one root cause, one report
            skip = {("peeled", "repo", n) for n in bad_names}
            for b, m, ro in compare_variant(ex, name, res, plain, seen, foreign, skip):
                if ro:
                    out.labels.add("counted-only:" + b.split(":")[1] + ":" + b.split(":")[3][:40])
                else:
                    out.fails.append((b, m))
        ex.close()
        live_open = False
        # idx version variant on the plain copy
        if ex.git_ok and pack_basenames(pathb):
            vers = reindex_packs(pathb)
            ri = Repo(pathb)
            try:
                idx = run_battery(ri, plan, families={"lookup", "mof"})
            finally:
                ri.close()
            sub = {k: v for k, v in plain.items() if k[0] in ("lookup", "mof")}
            for b, m, ro in compare_variant(ex, "idx", idx, sub, set(), False):
                out.fails.append((b, m))
            out.labels.add("idx-regenerated:v%s" % "+".join(map(str, sorted(set(vers)))))
        # labels / non-triviality
        npacks = len(pack_basenames(ex.path))
        octopus = any(c in plan.reachable for c in ex.h.octopus)
        for k in loaded:
            out.labels.add("loaded:" + k)
            a = ex.acc.get(k, {"stale": False, "foreign": False, "writer": "?"})
            if a["stale"]:
                out.labels.add("stale:" + k)
            if a["foreign"]:
                out.labels.add("foreign:" + k)
        if octopus:
            out.labels.add("octopus")
        if npacks >= 2:
            out.labels.add("packs>=2")
        if plan.unreachable:
            out.labels.add("has-unreachable")
        if ex.spec.get("idxver"):
            out.labels.add("idxver:%d" % ex.spec["idxver"])
        if live.get(("info", "provider"), ("ok", None))[1] == "BitmapReachability":
            out.labels.add("provider:bitmap(live)")
        if fresh.get(("info", "provider"), ("ok", None))[1] == "BitmapReachability":
            out.labels.add("provider:bitmap(fresh)")
        if loaded and (octopus or npacks >= 2 or any(ex.acc.get(k, {}).get("stale") for k in loaded)):
            out.nontrivial = True
        out.labels.add("accelerators-loaded:%d" % len(loaded))
        if not present:
            out.labels.add("no-accelerator-file-at-end")
        if loaded and octopus and "cg" in loaded:
            out.labels.add("octopus-under-commit-graph")
        return out
    finally:
        if live_open:
            try:
                ex.close()
            except Exception:
                pass
        shutil.rmtree(root, ignore_errors=True)


def _label_bitmap_use(out, variant, repo, plan):
    """Label only (looks at a private helper, tolerates its absence): did a bitmap actually produce an answer?"""
    try:
        prov = repo.object_store.get_reachability_provider()
        fn = getattr(prov, "_combine_commit_bitmaps", None)
        if fn is not None and any(fn({hd}) is not None for hd in plan.heads[:3]):
            out.labels.add(f"bitmap-produced-an-answer({variant})")
    except Exception:
        pass


def _loaded(repo, present):
    """Accelerators that dulwich's public getters actually load in the accelerated run."""
    s = repo.object_store
    out = set()
    if "cg" in present:
        o = outcome(lambda: s.get_commit_graph())
        if o[0] == "ok" and o[1] is not None:
            out.add("cg")
    if "midx" in present:
        o = outcome(lambda: s.get_midx())
        if o[0] == "ok" and o[1] is not None:
            out.add("midx")
    if "bitmap" in present:
        for p in s.packs:
            o = outcome(lambda: p.bitmap)
            if o[0] == "ok" and o[1] is not None:
                out.add("bitmap")
    if "packed-refs" in present:
        o = outcome(lambda: repo.refs.get_packed_refs())
        if o[0] == "ok" and o[1]:
            out.add("packed-refs")
    return out


# ---------------------------------------------------------------------------
# search, minimiser, replay


def _buckets(res: Result):
    return {b for b, _ in res.fails}


def minimise(ctx, case, bucket, budget=14):
    """Bounded one-pass reduction of the script (and unused history) that keeps ``bucket`` reproducing."""
    best = case
    script = list(case["script"])
    idx = len(script) - 1
    while idx >= 1 and budget > 0:
        trial = dict(best, script=script[:idx] + script[idx + 1:])
        budget -= 1
        r = evaluate(ctx.scratch.path, trial)
        if bucket in _buckets(r):
            best = trial
            script = list(trial["script"])
        idx -= 1
    used = sum(o[1] for o in best["script"] if o[0] in ("advance", "fetchpack"))
    spec = best["spec"]
    if used < len(spec["commits"]) and budget > 0:
        trial = dict(best, spec=dict(spec, commits=spec["commits"][:used], tags=[t for t in spec["tags"] if t[0] < used]))
        if bucket in _buckets(evaluate(ctx.scratch.path, trial)):
            best = trial
    return best


def judge(ctx, case, minimise_new=True):
    case = {"spec": case["spec"], "script": [tuple(o) for o in case["script"]]}
    res = evaluate(ctx.scratch.path, case)
    labels = set(res.labels)
    ctx.case(("case", repr(case)), nontrivial=res.nontrivial, labels=sorted(labels),
             sample=dict(script=case["script"], commits=[c[0] for c in case["spec"]["commits"]], labels=sorted(labels))
             if res.nontrivial and len(labels) > 6 else None)
    if res.abandoned:
        ctx.extra["abandoned"] = ctx.extra.get("abandoned", 0) + 1
        return
    msgs = {}
    for b, m in res.fails:
        msgs.setdefault(b, m)
    new = [b for b in msgs if b not in ctx.known_open]
    for b in msgs:
        if b in ctx.known_open:
            ctx.fail(b, msgs[b], "case", case)
    for b in sorted(new):
        c2 = case
        if minimise_new:
            c2 = minimise(ctx, case, b)
        ctx.fail(b, msgs[b], "case", c2)


def _part(ctx, n):
    run_hypothesis(ctx, G.case_strategy(), lambda c, case: judge(c, case), max_examples=n, shrink=False)


# fixed cases: the shapes the design names, always executed (cheap, deterministic)
_OCT = {"salt": 0, "idxver": None,
        "commits": [[[], 100, 0, 0], [[0], 110, 8, 1], [[0], 120, 15, 2], [[0], 130, 22, 3], [[1, 2, 3], 140, 3, 0],
                    [[4], 150, 9, 0], [[3], 155, 40, 3], [[5, 1, 2, 3], 160, 30, 0]],
        "tags": [[4, "a", 4, 0], [5, "l", 2, 1], [5, "aa", 0, 2]]}
_LIN = {"salt": 0, "idxver": None, "commits": [[[], 100, 0, 0], [[0], 110, 8, 0], [[1], 120, 15, 0], [[2], 130, 22, 0]],
        "tags": []}
FIXED = [
    # refs re-packed / changed by another process while a long-lived instance holds its packed-refs cache
    {"spec": _LIN, "script": [("advance", 2), ("pack_refs", "git"), ("query",), ("advance", 2), ("pack_refs", "git")]},
    {"spec": _OCT, "script": [("advance", 6), ("pack_refs", "git"), ("query",), ("delref", 3, "git"), ("moveref", 0, "git")]},
    {"spec": _OCT, "script": [("advance", 5), ("query",), ("pack_refs", "git"), ("advance", 3), ("pack_refs", "dulwich"), ("delref", 2, "git")]},
    {"spec": _OCT, "script": [("advance", 5), ("cg", "dulwich"), ("advance", 3)]},
    {"spec": _OCT, "script": [("advance", 8), ("cg", "git"), ("pack_refs", "git"), ("delref", 2)]},
    {"spec": _OCT, "script": [("advance", 7), ("pack_loose",), ("midx", "dulwich"), ("delref", 3), ("prune",)]},
    {"spec": _OCT, "script": [("advance", 4), ("pack_loose",), ("midx", "git"), ("advance", 4), ("pack_loose",), ("delref", 3), ("gc",)]},
    {"spec": _OCT, "script": [("advance", 4), ("pack_loose",), ("advance", 4), ("pack_loose",), ("bitmap",)]},
    {"spec": _OCT, "script": [("advance", 5), ("git_repack", True), ("fetchpack", 2), ("reopen",)]},
    {"spec": _OCT, "script": [("advance", 6), ("pack_refs", "dulwich"), ("advance", 1)]},
    {"spec": _OCT, "script": [("advance", 6), ("pack_refs", "git"), ("query",), ("retag", 0, "dulwich"), ("query",)]},
    {"spec": _OCT, "script": [("advance", 6), ("pack_refs", "dulwich"), ("retag", 0, "git"), ("reopen",)]},
    {"spec": _OCT, "script": [("advance", 6), ("cg", "dulwich-tips"), ("advance", 2), ("gc",)]},
    {"spec": dict(_OCT, idxver=1), "script": [("advance", 8), ("pack_loose",), ("midx", "dulwich"), ("cg", "git-bloom")]},
    {"spec": dict(_OCT, idxver=3), "script": [("advance", 4), ("pack_loose",), ("fetchpack", 3), ("midx", "dulwich"), ("bitmap",)]},
    {"spec": _OCT, "script": [("advance", 5), ("pack_loose",), ("foreign", "midx"), ("foreign", "cg"), ("foreign", "bitmap")]},
]


def selftest(ctx):
    """The model, the packed-refs exploder and the idx regeneration against C git on a fixed history."""
    from dulwich.repo import Repo

    cgit.selfcheck()
    root = ctx.scratch.new("selftest")
    ex = Exec(root, {"spec": _OCT, "script": [("advance", 8)]})
    try:
        ex.run_script()
        h = ex.h
        tips = sorted(ex.refs.values())
        out = cgit.out(["rev-list", "--objects", "--no-object-names"] + [t.decode() for t in tips], cwd=ex.path)
        got = set(out.split())
        want = h.closure(tips)
        if got != want:
            raise HarnessError(f"model closure differs from git rev-list --objects: only model {sorted(want - got)[:3]}, only git {sorted(got - want)[:3]}")
        for c in h.cids:
            gp = cgit.out(["rev-parse", c.decode() + "^@"], cwd=ex.path).split()
            if gp != h.parents_of(c):
                raise HarnessError(f"model parents differ from git for {c!r}")
        before = cgit.out(["for-each-ref", "--format=%(objectname) %(refname)"], cwd=ex.path)
        cgit.git(["pack-refs", "--all"], cwd=ex.path)
        explode_packed_refs(ex.path)
        after = cgit.out(["for-each-ref", "--format=%(objectname) %(refname)"], cwd=ex.path)
        if before != after or os.path.exists(os.path.join(ex.path, "packed-refs")):
            raise HarnessError("explode_packed_refs changed the refs")
        if {l.split(b" ")[1]: l.split(b" ")[0] for l in before.splitlines()} != ex.refs:
            raise HarnessError("model refs differ from git for-each-ref")
        for name, sha in ex.refs.items():
            if h.peel(sha) != cgit.out(["rev-parse", sha.decode() + "^{}"], cwd=ex.path).strip():
                raise HarnessError(f"model peel differs from git for {name!r}")
        cgit.git(["repack", "-ad"], cwd=ex.path)
        if reindex_packs(ex.path) != [1] or idx_version(pack_basenames(ex.path)[0] + ".idx") != 1:
            raise HarnessError("reindex_packs did not produce an idx v1")
        rc, o = cgit.fsck(ex.path)
        if rc != 0:
            raise HarnessError(f"git fsck fails after reindex: {o[:300]!r}")
    finally:
        ex.close()
    foreign_files(ctx.scratch.new("foreign-selftest"))
    _FOREIGN.clear()


def _fixed_part(ctx, cases):
    for case in cases:
        judge(ctx, case, minimise_new=False)


# ---------------------------------------------------------------------------
# packed-refs cache of a long-lived handle against a concurrent rewrite (schedule search)


def _race_template(path):
    from dulwich.repo import Repo

    from ..gen import repos

    info = repos.init_repo(path, "loose", "packed")
    r = Repo(path)
    try:
        ids = info["commits"]
        r.refs[b"refs/heads/topic"] = ids[1]
        r.refs[b"refs/heads/main2"] = ids[2]
        r.refs.pack_refs(all=True)
    finally:
        r.close()
    return info


RACE_WRITERS = {
    # what the other actor does to packed-refs while the long-lived handle is reading it
    "delete+move+pack": lambda r, ids: (r.refs.remove_if_equals(b"refs/heads/topic", None), r.refs.__setitem__(b"refs/heads/main2", ids[3]), r.refs.pack_refs(all=True)),
    "delete-packed": lambda r, ids: r.refs.remove_if_equals(b"refs/heads/topic", None),
    "add_packed_refs": lambda r, ids: r.refs.add_packed_refs({b"refs/heads/main2": ids[4], b"refs/heads/topic": None}),
}
RACE_READERS = {
    "as_dict": lambda r: r.refs.as_dict(),
    "get_packed_refs": lambda r: dict(r.refs.get_packed_refs()),
    "getitem": lambda r: r.refs[b"refs/heads/main2"],
    "get_peeled": lambda r: r.refs.get_peeled(b"refs/heads/main2"),
}


def run_cache_race(ctx, template, info, reader, writer, strategy, check="refs-race"):
    import gc
    import shutil
    import warnings

    from dulwich.repo import Repo

    from ..interpose import Interposer, Scheduler

    work = ctx.scratch.new("race")
    repo = os.path.join(work, "repo")
    shutil.copytree(template, repo, symlinks=True)
    gitdir = os.path.join(repo, ".git")
    watch = (os.path.join(gitdir, "packed-refs"), os.path.join(gitdir, "refs"))

    def visible(ev):
        return ev.op == "start" or any(q and q.startswith(watch) for q in (ev.path, ev.path2))

    sched = Scheduler(strategy, visible=visible)
    ip = Interposer(work, sched)
    ids = info["commits"]
    case = dict(reader=reader, writer=writer)
    with warnings.catch_warnings():
        warnings.simplefilter("ignore")
        long_lived = Repo(repo)  # opened (and its cache possibly warm) before the race
        try:
            if reader != "get_packed_refs":
                long_lived.refs.get_packed_refs() if ctx.seed % 2 else None

            def a():
                try:
                    RACE_READERS[reader](long_lived)
                except KeyError:
                    pass

            def b():
                other = Repo(repo)
                try:
                    RACE_WRITERS[writer](other, ids)
                finally:
                    other.close()

            ip.install()
            try:
                results = sched.run(ip, [("A", a), ("B", b)])
            finally:
                ip.uninstall()
            for n, r in results.items():
                if r[0] != "ok":
                    raise HarnessError(f"race actor {n} crashed: {r}")
            # quiescent now: whatever the handle cached during the race, its answers must be those of a fresh handle
            fresh = Repo(repo)
            try:
                for q, fn in (("as_dict", lambda r: r.refs.as_dict()), ("packed", lambda r: dict(r.refs.get_packed_refs())),
                              ("keys", lambda r: sorted(r.refs.keys())), ("contains-topic", lambda r: b"refs/heads/topic" in r.refs)):
                    got, want = outcome(lambda: fn(long_lived)), outcome(lambda: fn(fresh))
                    if got != want:
                        ctx.fail(f"C14:refs-race:{reader}|{writer}:stale-forever:{q}",
                                 f"after {reader} on a long-lived handle raced with {writer} by another handle and both finished, {q} through the long-lived handle is "
                                 f"{_short(got)} but a freshly opened repository says {_short(want)}", check, dict(case, schedule=[c for _, c in sched.decisions]))
                        break
            finally:
                fresh.close()
        finally:
            long_lived.close()
    gc.collect()
    trace = [ev for ev in ip.trace if ev.op != "start" and visible(ev)]
    first, last = {}, {}
    for i, ev in enumerate(trace):
        first.setdefault(ev.actor, i)
        last[ev.actor] = i
    interleaved = any(first[x] < i < last[x] for i, ev in enumerate(trace) for x in first if x != ev.actor)
    sched_list = [c for _, c in sched.decisions]
    shutil.rmtree(work, ignore_errors=True)
    return interleaved, sched_list


def _part_refs_race(ctx, item):
    import shutil

    from ..interpose import DFSExplorer

    reader, writer, max_runs = item
    tdir = ctx.scratch.new("racetmpl")
    template = os.path.join(tdir, "repo")
    info = _race_template(template)
    ex = DFSExplorer(1, max_runs=max_runs)
    n = 0
    while ex.more():
        inter, sl = run_cache_race(ctx, template, info, reader, writer, ex.next_run())
        ex.done_run()
        n += 1
        ctx.case(("refs-race", reader, writer, tuple(sl)), nontrivial=inter, labels=("refs-race", f"refs-race:{reader}|{writer}") + (("refs-race-interleaved",) if inter else ()),
                 sample=dict(reader=reader, writer=writer, schedule=sl) if inter and n == 5 else None)
    ctx.label("refs-race-exhaustive(<=1 preemption)" if ex.exhausted else "refs-race-capped")
    shutil.rmtree(tdir, ignore_errors=True)


def run(ctx):
    selftest(ctx)
    ctx.note("git_version", cgit.version())
    ctx.parallel(_part_refs_race, [(rd, wr, ctx.scale(150, 4000)) for rd in sorted(RACE_READERS) for wr in sorted(RACE_WRITERS)])
    ctx.parallel(_fixed_part, [[c] for c in FIXED])
    ctx.parallel(_part_idx_versions, [0, 1, 2, 3])
    per = ctx.scale(75, 2000)
    ctx.parallel(_part, [per] * 16)
    ab = ctx.extra.get("abandoned", 0)
    if ab * 5 > max(1, ctx.evaluations):
        raise HarnessError(f"{ab} of {ctx.evaluations} cases abandoned because a script operation raised: see labels")


# ---------------------------------------------------------------------------
# the pack index version, on offsets no generated pack reaches
#
# "the pack index version never changes the answer to object lookup": the same (name, offset, crc) table written as v1,
# v2 and v3 index must answer every lookup with the offset that was written - also where the 31-bit inline field of
# v2/v3 ends and the 64-bit table begins, which needs packs of 2 GiB and more, so the tables are synthetic.

_IDX_OFFSETS = [12, 2**31 - 1, 2**31, 2**31 + 1, 2**32 - 1, 2**32, 2**32 + 1, 2**40 + 7, 2**63 - 1]


def check_index_versions(ctx, case, check="idx-versions"):
    import io

    from dulwich.object_format import DEFAULT_OBJECT_FORMAT
    from dulwich.pack import load_pack_index, write_pack_index_v1, write_pack_index_v2, write_pack_index_v3

    entries = sorted((hashlib.sha1(b"idxv %d %d" % (case["salt"], i)).digest(), off, (off * 2654435761) & 0xFFFFFFFF) for i, off in enumerate(case["offsets"]))
    answers = {}
    for ver, writer in ((1, write_pack_index_v1), (2, write_pack_index_v2), (3, write_pack_index_v3)):
        if ver == 1 and max(case["offsets"]) >= 2**32:
            continue  # v1 has 32-bit offsets only
        path = os.path.join(ctx.scratch.new("iv"), "v%d.idx" % ver)
        try:
            buf = io.BytesIO()
            writer(buf, entries, b"\x11" * 20)
            with open(path, "wb") as f:
                f.write(buf.getvalue())
            idx = load_pack_index(path, DEFAULT_OBJECT_FORMAT)
            try:
                got = []
                for name, off, crc in entries:
                    try:
                        got.append(idx.object_offset(name))
                    except Exception as e:
                        got.append(type(e).__name__)
                listed = [(e[0], e[1]) for e in idx.iterentries()]
            finally:
                idx.close()
        except Exception as e:
            got, listed = type(e).__name__, None
        answers[ver] = got
        want = [off for _, off, _ in entries]
        if got != want or (listed is not None and listed != [(n, o) for n, o, _ in entries]):
            bad = [(w, g) for w, g in zip(want, got) if w != g][:3] if isinstance(got, list) else got
            ctx.fail(f"C14:idx-versions:v{ver}:wrong-offset", f"index v{ver} written by dulwich answers {bad!r} (written, read back) for offsets {want}; "
                     f"listing {'agrees' if listed == [(n, o) for n, o, _ in entries] else 'differs'}", check, case)
    ctx.case(("idxv", case["salt"], tuple(case["offsets"])), nontrivial=any(o >= 2**31 for o in case["offsets"]),
             labels=["idx-versions", "idx-versions:" + ("64-bit-table" if any(o >= 2**31 for o in case["offsets"]) else "inline-only")],
             sample=dict(offsets=case["offsets"], answers={str(k): (v if isinstance(v, str) else "ok") for k, v in answers.items()}) if case["salt"] % 40 == 1 else None)


def _part_idx_versions(ctx, k):
    import itertools
    import random

    rnd = random.Random(k * 7919 + ctx.seed)
    # every single boundary offset alone, every pair, and drawn mixtures with ordinary offsets
    cases = [[o] for o in _IDX_OFFSETS] + [list(p) for p in itertools.combinations(_IDX_OFFSETS, 2)]
    for _ in range(60):
        cases.append(sorted(set(rnd.sample(_IDX_OFFSETS, rnd.randint(1, 4)) + [rnd.randrange(12, 2**31) for _ in range(rnd.randint(0, 5))])))
    for n, offs in enumerate(cases):
        if n % 4 == k:
            check_index_versions(ctx, dict(salt=n, offsets=offs))


def replay(ctx, check, case):
    if check == "idx-versions":
        check_index_versions(ctx, case)
        return
    if check == "refs-race":
        # pinned schedules go stale with the code: explore the pair
        _part_refs_race(ctx, (case["reader"], case["writer"], 400))
        return
    if check != "case":
        raise HarnessError(f"unknown check {check!r}")
    focus = case.get("focus")  # pinned known findings name the one bucket they are about
    case = {"spec": case["spec"], "script": [tuple(o) for o in case["script"]]}
    res = evaluate(ctx.scratch.path, case)
    if res.abandoned:
        return
    for b, m in res.fails:
        if focus is None or b == focus:
            ctx.fail(b, m, "case", case)
