"""C15 — Rust extensions and pure-Python fallbacks are observationally equivalent."""

from __future__ import annotations

import hashlib
import itertools
import json
import os
import subprocess
import sys

from .. import rustext, sandbox
from ..core import REPO, VERIF_DIR, HarnessError, h64
from ..model.packfmt import DeltaError, patch_delta, read_varint
from . import c03

PROPERTY = "C15"
LEVEL = "exploration"
NEEDS_RUST = True
AUTO_TWINS = False  # this module drives both implementations explicitly
RULE = (
    "Differential: each twin pair (parse_tree, sorted_tree_items, apply_delta, create_delta, bisect_find_sha, "
    "_merge_entries, _is_tree, _count_blocks) is called with the same input in a forked child (crash isolation); "
    "outcomes must be both ok with equal canonical values or both failures; a Rust panic or process death is a "
    "violation by itself.  Inputs: valid trees (both id lengths, strict on/off), grammar mutants of tree payloads "
    "(signs, underscores, 0o, whitespace, non-octal, >32-bit modes, missing terminators, truncated ids), exhaustive "
    "mode strings up to length 4 over {1,0,7,8,+,-,_,SP,NUL,LF,a}; entry dicts with prefix/dir-file twin names and "
    "every S_IFMT value; the C03 delta domain (exhaustive short deltas, structured mutants, generated pairs); sorted "
    "id tables with probes at/over the ends, start>end and 32-bit index limits (synthetic unpack_name); pairs of small "
    "trees; blobs with 63/64/65-byte lines and multi-chunk layouts; plus a repository-level battery run once with "
    "the extensions and once pure.  Non-trivial = the input is not a plain valid tree/delta/table hit (it exercises an "
    "error path, boundary or ordering collision) and at least one side reaches past argument extraction; distinct by "
    "(function, input)."
)
ASSUMPTIONS = [
    "inputs are well-typed per the functions' annotations (bytes names, int modes, bytes ids); ill-typed inputs are out of the alarmed domain",
    "names containing '/' or NUL cannot occur in trees and are excluded from ordering comparisons",
    "both sides use hash(bytes) in the same process configuration (PYTHONHASHSEED=0) for _count_blocks",
    "debug-profile Rust build from the working tree",
]

_im = {}


def impls():
    if not _im:
        import dulwich._diff_tree as rdt
        import dulwich._objects as ro
        import dulwich._pack as rp
        import dulwich.objects as O

        ppack = rustext.load_pure("pack")
        pdt = rustext.load_pure("diff_tree")
        pobj = rustext.load_pure("objects")
        if pobj.parse_tree is ro.parse_tree or pdt._merge_entries is rdt._merge_entries or ppack.apply_delta is rp.apply_delta:
            raise HarnessError("pure copies are not pure")
        _im.update(
            parse_tree=(lambda *a, **k: list(pobj.parse_tree(*a, **k)), lambda *a, **k: list(ro.parse_tree(*a, **k))),
            sorted_tree_items=(lambda *a: [tuple(e) for e in pobj.sorted_tree_items(*a)], lambda *a: [tuple(e) for e in ro.sorted_tree_items(*a)]),
            apply_delta=(lambda b, d: b"".join(ppack.apply_delta(b, d)), lambda b, d: b"".join(rp.apply_delta(b, d))),
            create_delta=(lambda b, t: b"".join(ppack._create_delta_py(b, t)), lambda b, t: bytes(rp.create_delta(b, t))),
            bisect_find_sha=(ppack.bisect_find_sha, rp.bisect_find_sha),
            merge_entries=(lambda *a: [tuple(None if e is None else tuple(e) for e in p) for p in pdt._merge_entries(*a)],
                           lambda *a: [tuple(None if e is None else tuple(e) for e in p) for p in rdt._merge_entries(*a)]),
            is_tree=(pdt._is_tree, rdt._is_tree),
            count_blocks=(lambda o: dict(pdt._count_blocks(o)), lambda o: dict(rdt._count_blocks(o))),
        )
        _im["O"] = O
    return _im


def call(f, *a, **k):
    try:
        return ("ok", f(*a, **k))
    except BaseException as e:
        if isinstance(e, (KeyboardInterrupt, SystemExit)):
            raise
        n = type(e).__name__
        return ("panic",) if n == "PanicException" else ("exc", n)


def compare(ctx, func, feature, a, b, check, case, equal=None):
    """a = python outcome, b = rust outcome."""
    ok = True
    if b[0] == "panic":
        ctx.fail(f"C15:{func}:rust-panic:{feature}", f"{func}: Rust implementation panicked (python: {a[0]})", check, case)
        return False
    if a[0] == "ok" and b[0] == "ok":
        same = (a[1] == b[1]) if equal is None else equal(a[1], b[1])
        if not same:
            ctx.fail(f"C15:{func}:values-differ:{feature}", f"{func}: python returned {str(a[1])[:200]}, rust {str(b[1])[:200]}", check, case)
            ok = False
    elif a[0] != b[0] and not (a[0] != "ok" and b[0] != "ok"):
        ctx.fail(f"C15:{func}:py={a[0]}:rs={b[0]}:{feature}", f"{func}: python {a!r:.200}, rust {b!r:.200}", check, case)
        ok = False
    return ok


def on_death(ctx, case, how):
    ctx.fail(f"C15:{case[0]}:died:{how}", f"{case[0]} killed the process ({how})", case[0], dict(args=case[1:]))


def run_cases(ctx, cases, fn, batch=4000):
    """cases: list of tuples (check-name, ...); fn(sub, case) judges one.  Crash-isolated with exact attribution."""
    batches = [("batch", cases[i : i + batch]) for i in range(0, len(cases), batch)]

    def run_batch(sub, b):
        for c in b[1]:
            fn(sub, c)

    def death(c, b, how):
        sandbox.isolated(c, fn, b[1], on_death, max_deaths=len(b[1]) + 1)

    sandbox.isolated(ctx, run_batch, batches, death)


# ---------------------------------------------------------------------------
# parse_tree


def mode_feature(text):
    """Classify the first entry's mode text (root-cause key)."""
    sp = text.find(b" ")
    if sp < 0:
        return "no-space"
    m = text[:sp]
    if not m:
        return "empty-mode"
    if m.strip(b"01234567") == b"":
        if len(m.lstrip(b"0")) > 11 or int(m, 8) >= 1 << 32:
            return ">32bit"
        return "octal"
    if b"_" in m:
        return "underscore"
    if m[:1] == b"-":
        return "minus"
    if m[:1] == b"+":
        return "plus"
    if m[:2].lower() == b"0o":
        return "0o-prefix"
    if m != m.strip():
        return "whitespace"
    if any(c >= 0x80 for c in m):
        return "non-ascii"
    return "non-octal"


def judge_parse_tree(sub, case):
    _, text, sha_len, strict = case
    py, rs = impls()["parse_tree"]
    a = call(py, text, sha_len, strict=strict)
    b = call(rs, text, sha_len, strict=strict)
    feat = mode_feature(text)
    ok = compare(sub, "parse_tree", feat, a, b, "parse_tree", dict(text=text, sha_len=sha_len, strict=strict))
    plain_valid = a[0] == "ok" and b[0] == "ok" and feat == "octal"
    sub.case(h64("pt", text, sha_len, strict), nontrivial=not plain_valid, labels=("parse_tree", "pt:" + feat, "pt:" + a[0] + "/" + b[0]),
             sample=dict(fn="parse_tree", text=text, sha_len=sha_len, strict=strict) if feat in ("underscore", "plus") and len(text) < 40 else None)


def tree_payload_strategy():
    from hypothesis import strategies as st

    names = st.sampled_from([b"a", b"a.b", b"a-", b"a0", b"ab", b"b", b"\xff", b"x y", b"A", b".git", b"long" * 20])
    modes = st.sampled_from([b"100644", b"100755", b"40000", b"120000", b"160000", b"040000", b"0100644", b"644", b"0",
                             b"+644", b"-644", b"6_44", b"0o644", b"\t644", b"644\t", b"\n644", b"648", b"64a", b"", b"777777777777",
                             b"37777777777", b"40000000000", b"\xd9\xa6", b"1" * 30, b"+", b"-", b"_", b"0_0", b"00", b"4_0000", b" 644"])

    @st.composite
    def payload(draw):
        # callers pass the repository's id length: 20 or 32 (other values are outside the typed domain)
        sha_len = draw(st.sampled_from([20, 20, 32]))
        true_len = draw(st.sampled_from([20, 20, 32, sha_len, 19, 21]))
        out = b""
        for _ in range(draw(st.integers(0, 4))):
            out += draw(modes) + b" " + draw(names) + b"\0" + draw(st.binary(min_size=true_len, max_size=true_len))
        kind = draw(st.sampled_from(["asis", "asis", "trunc", "tail", "nospace", "nonul"]))
        if kind == "trunc" and out:
            out = out[: draw(st.integers(0, len(out) - 1))]
        elif kind == "tail":
            out += draw(st.binary(min_size=1, max_size=6))
        elif kind == "nospace":
            out = out.replace(b" ", b"", 1)
        elif kind == "nonul":
            out = out.replace(b"\0", b"", 1)
        return ("parse_tree", out, sha_len, draw(st.booleans()))

    return payload()


def _part_parse_tree_exhaustive(ctx, item):
    maxlen, nshards, shard = item
    alpha = [b"1", b"0", b"7", b"8", b"+", b"-", b"_", b" ", b"\0", b"\n", b"a"]
    tail = b" n\0" + bytes(range(20))
    cases = []
    k = 0
    for n in range(0, maxlen + 1):
        for tup in itertools.product(alpha, repeat=n):
            if k % nshards == shard:
                cases.append(("parse_tree", b"".join(tup) + tail, 20, bool(k & 16)))
            k += 1
    run_cases(ctx, cases, judge_parse_tree)


def _part_parse_tree(ctx, n):
    cases = c03.collect(tree_payload_strategy(), n, ctx.seed * 1000 + ctx.shard + 100)
    run_cases(ctx, cases, judge_parse_tree)


# ---------------------------------------------------------------------------
# sorted_tree_items

S_IFMTS = [0o040000, 0o100644, 0o100755, 0o120000, 0o160000, 0o010644, 0o020000, 0o060000, 0o140000, 0, 0o644, 0o40755, 0o170000]


def judge_sorted(sub, case):
    _, entries, name_order = case
    py, rs = impls()["sorted_tree_items"]
    d = dict(entries)
    a = call(py, d, name_order)
    b = call(rs, d, name_order)
    names = [n for n, _ in entries]
    collide = any(x != y and (y.startswith(x)) for x in names for y in names)
    compare(sub, "sorted_tree_items", "order" if a[0] == "ok" else "error", a, b, "sorted_tree_items", dict(entries=entries, name_order=name_order))
    sub.case(h64("st", repr(entries), name_order), nontrivial=collide or a[0] != "ok",
             labels=("sorted_tree_items", "st:prefix-collision" if collide else "st:plain", "st:" + a[0] + "/" + b[0]),
             sample=dict(fn="sorted_tree_items", entries=entries, name_order=name_order) if collide and len(entries) <= 4 else None)


def sorted_strategy():
    from hypothesis import strategies as st

    name = st.one_of(st.sampled_from([b"a", b"a.", b"a-", b"a0", b"a.b", b"ab", b"a b", b"a\xff", b"a\x01", b"A", b"", b"b", b"aa", b"a-b", b"a/"]),
                     st.binary(min_size=1, max_size=4).map(lambda b: b.replace(b"/", b".").replace(b"\0", b"1")))
    # modes are what parse_tree can return: 0 .. 2^32-1
    mode = st.one_of(st.sampled_from(S_IFMTS), st.sampled_from([(1 << 32) - 1, 1 << 31, 0o40000 | (1 << 20)]))
    sha = st.sampled_from([b"0" * 40, b"a" * 40, b"f" * 64, b""])
    ent = st.tuples(name, st.tuples(mode, sha))
    lst = st.lists(ent, max_size=7, unique_by=lambda e: e[0])
    return st.tuples(st.just("sorted_tree_items"), lst, st.booleans())


def _part_sorted(ctx, n):
    cases = c03.collect(sorted_strategy(), n, ctx.seed * 1000 + ctx.shard + 200)
    # names with '/' are not tree names: keep them out of the alarmed domain
    cases = [c for c in cases if not any(b"/" in nm for nm, _ in c[1])]
    run_cases(ctx, cases, judge_sorted)


# ---------------------------------------------------------------------------
# apply_delta / create_delta


def judge_apply(sub, case):
    _, base, delta = case
    py, rs = impls()["apply_delta"]
    reaches, feat, declared = c03.delta_features(delta)
    try:
        ref = patch_delta(base, delta)
    except DeltaError:
        ref = None
    allowance = c03.MEM_SLACK + 8 * (len(base) + len(delta) + (len(ref) if ref is not None else 0))
    with sandbox.mem_limit(allowance):
        a = call(py, base, delta)
    with sandbox.mem_limit(allowance):
        b = call(rs, base, delta)
    compare(sub, "apply_delta", feat if ref is not None else feat + ":git-rejects", a, b, "apply_delta", dict(base=base, delta=delta))
    sub.case(h64("ad", base, delta), nontrivial=reaches and ref is None, labels=("apply_delta", "ad:" + a[0] + "/" + b[0]),
             sample=dict(fn="apply_delta", base_len=len(base), delta=delta) if reaches and ref is None and a[0] == "ok" and len(delta) < 30 else None)


def judge_create(sub, case):
    _, base, target = case
    py, rs = impls()["create_delta"]
    a = call(py, base, target)
    b = call(rs, base, target)

    def both_decode(x, y):
        try:
            return patch_delta(base, x) == target and patch_delta(base, y) == target
        except DeltaError:
            return False

    compare(sub, "create_delta", "roundtrip", a, b, "create_delta", dict(base=base, target=target), equal=both_decode)
    sub.case(h64("cd", base, target), nontrivial=a[0] == "ok" and b[0] == "ok" and a[1] != b[1], labels=("create_delta",))


def _part_apply_exhaustive(ctx, item):
    maxlen, nshards, shard = item
    cases = [("apply_delta", c03.BASES[bn], d) for d in c03._exhaustive_cases(maxlen, nshards, shard) for bn in ("one", "two")]
    run_cases(ctx, cases, judge_apply, batch=8000)


def _part_apply_mutants(ctx, n):
    ms = []
    for j, kind in enumerate(c03.MUTANT_KINDS):
        ms += c03.collect(c03.mutant_strategy(kind), max(1, n // len(c03.MUTANT_KINDS)), ctx.seed * 1000 + ctx.shard + 300 + j)
    run_cases(ctx, [("apply_delta", b, d) for b, d, _ in ms], judge_apply, batch=500)


def _part_create(ctx, n):
    pairs = c03.collect(c03.pair_strategy(), n, ctx.seed * 1000 + ctx.shard + 400)
    run_cases(ctx, [("create_delta", b, t) for b, t in pairs], judge_create, batch=500)


# ---------------------------------------------------------------------------
# bisect_find_sha


def synth_name(i, n=20):
    """Strictly increasing synthetic table: id of row i is i as a big-endian integer."""
    return i.to_bytes(n, "big")


def judge_bisect(sub, case):
    _, kind, start, end, sha, table = case
    py, rs = impls()["bisect_find_sha"]
    if kind == "table":
        unpack = lambda i: table[i]
    elif kind == "synthetic":
        n = len(sha)
        unpack = lambda i: synth_name(i, n) if i >= 0 else b""
    else:  # short names
        unpack = lambda i: table[i][:5]
    a = call(py, start, end, sha, unpack)
    b = call(rs, start, end, sha, unpack)
    feat = kind + (":start>end" if start > end else "") + (":idx>=2^30" if max(abs(start), abs(end)) >= 1 << 30 else "")
    compare(sub, "bisect_find_sha", feat, a, b, "bisect_find_sha", dict(kind=kind, start=start, end=end, sha=sha, table=table))
    hit = a[0] == "ok" and a[1] is not None
    sub.case(h64("bs", kind, start, end, sha, repr(table)[:2000]), nontrivial=not (kind == "table" and hit and start <= end),
             labels=("bisect", "bs:" + feat, "bs:" + a[0] + "/" + b[0]),
             sample=dict(fn="bisect_find_sha", kind=kind, start=start, end=end, sha=sha) if kind == "synthetic" and len(sha) == 20 else None)


def bisect_strategy():
    from hypothesis import strategies as st

    @st.composite
    def case(draw):
        n = draw(st.sampled_from([20, 20, 32]))
        kind = draw(st.sampled_from(["table", "table", "synthetic"]))
        if kind == "synthetic":
            hi = draw(st.sampled_from([10, 1 << 16, (1 << 30) - 1, 1 << 30, (1 << 31) - 2, (1 << 31) - 1]))
            lo = draw(st.sampled_from([0, 0, 1, hi - 1, hi, 1 << 29]))
            target = draw(st.one_of(st.integers(0, hi), st.sampled_from([0, hi, hi - 1, hi + 1, (hi // 2) + 1, (1 << 31) - 1])))
            return ("bisect_find_sha", kind, lo, hi, synth_name(target, n), None)
        size = draw(st.integers(0, 40))
        ids = sorted({hashlib.sha1(b"%d:%d" % (draw(st.integers(0, 3)), i)).digest()[:n].ljust(n, b"\0") for i in range(size)})
        probe = draw(st.one_of(st.sampled_from(ids) if ids else st.just(b"\0" * n), st.binary(min_size=n, max_size=n),
                               st.sampled_from([b"\0" * n, b"\xff" * n])))
        start = draw(st.sampled_from([0, 0, 0, 1, len(ids) // 2]))
        end = draw(st.sampled_from([len(ids) - 1, len(ids) - 1, len(ids) - 1, max(len(ids) - 2, 0), start - 1, start]))
        if ids and end >= len(ids):
            end = len(ids) - 1
        if not ids:
            start, end = 0, -1
        return ("bisect_find_sha", kind, start, end, probe, ids)

    return case()


def _part_bisect(ctx, n):
    cases = c03.collect(bisect_strategy(), n, ctx.seed * 1000 + ctx.shard + 500)
    run_cases(ctx, cases, judge_bisect, batch=500)


# ---------------------------------------------------------------------------
# diff_tree twins


def _mk_tree(entries):
    O = impls()["O"]
    t = O.Tree()
    for name, mode, sha in entries:
        t.add(name, mode, sha)
    return t


def judge_merge(sub, case):
    _, path, e1, e2 = case
    py, rs = impls()["merge_entries"]
    t1 = None if e1 is None else _mk_tree(e1)
    t2 = None if e2 is None else _mk_tree(e2)
    a = call(py, path, t1, t2)
    b = call(rs, path, t1, t2)
    compare(sub, "_merge_entries", "merge", a, b, "merge_entries", dict(path=path, e1=e1, e2=e2))
    n1 = {x[0] for x in e1 or []}
    n2 = {x[0] for x in e2 or []}
    sub.case(h64("me", path, repr(e1), repr(e2)), nontrivial=bool(n1 & n2) and n1 != n2, labels=("merge_entries", "me:path" if path else "me:root"),
             sample=dict(fn="_merge_entries", path=path, tree1=e1, tree2=e2) if (n1 & n2) and n1 != n2 and len(n1 | n2) <= 4 else None)
    is_py, is_rs = impls()["is_tree"]
    O = impls()["O"]
    for name, mode, sha in (e1 or [])[:3]:
        ent = O.TreeEntry(name, mode, sha)
        compare(sub, "_is_tree", "mode", call(is_py, ent), call(is_rs, ent), "is_tree", dict(mode=mode))
    for ent in (None, O.TreeEntry(b"x", None, None)):
        compare(sub, "_is_tree", "none", call(is_py, ent), call(is_rs, ent), "is_tree", dict(mode=None if ent is not None else "entry-none"))


def merge_strategy():
    from hypothesis import strategies as st

    name = st.sampled_from([b"a", b"a.", b"a-", b"a0", b"a.b", b"ab", b"b", b"aa", b"A", b"\xff", b"a b", b"z"])
    mode = st.sampled_from([0o040000, 0o100644, 0o100755, 0o120000, 0o160000])
    sha = st.sampled_from([b"1" * 40, b"2" * 40, b"3" * 40])
    ents = st.lists(st.tuples(name, mode, sha), max_size=6, unique_by=lambda e: e[0])
    tree = st.one_of(st.none(), ents, ents)
    path = st.sampled_from([b"", b"", b"dir", b"a/b", b"\xff"])
    return st.tuples(st.just("merge_entries"), path, tree, tree)


def _part_merge(ctx, n):
    run_cases(ctx, c03.collect(merge_strategy(), n, ctx.seed * 1000 + ctx.shard + 600), judge_merge, batch=500)


def judge_is_tree_modes(sub, case):
    is_py, is_rs = impls()["is_tree"]
    O = impls()["O"]
    for mode in case[1]:
        ent = O.TreeEntry(b"x", mode, b"1" * 40)
        compare(sub, "_is_tree", "mode", call(is_py, ent), call(is_rs, ent), "is_tree", dict(mode=mode))
        sub.case(h64("it", mode), nontrivial=True, labels=("is_tree",))


def judge_count(sub, case):
    _, chunks = case
    py, rs = impls()["count_blocks"]
    O = impls()["O"]
    blob = O.Blob()
    blob.chunked = list(chunks)
    a = call(py, blob)
    b = call(rs, blob)
    compare(sub, "_count_blocks", "blocks", a, b, "count_blocks", dict(chunks=chunks))
    data = b"".join(chunks)
    lines = data.split(b"\n")
    interesting = len(chunks) > 1 or any(len(l) in (62, 63, 64, 65, 127, 128) for l in lines) or not data.endswith(b"\n")
    sub.case(h64("cb", repr(chunks)), nontrivial=interesting, labels=("count_blocks", "cb:multichunk" if len(chunks) > 1 else "cb:single"))


def count_strategy():
    from hypothesis import strategies as st

    line = st.one_of(st.sampled_from([b"", b"x" * 62, b"x" * 63, b"x" * 64, b"x" * 65, b"y" * 127, b"y" * 128, b"z" * 200]), st.binary(max_size=70))
    data = st.lists(line, max_size=8).flatmap(lambda ls: st.sampled_from([b"\n".join(ls), b"\n".join(ls) + b"\n"]))

    @st.composite
    def case(draw):
        d = draw(data)
        cuts = sorted(draw(st.lists(st.integers(0, len(d)), max_size=3)))
        chunks = []
        prev = 0
        for c in cuts + [len(d)]:
            chunks.append(d[prev:c])
            prev = c
        return ("count_blocks", chunks)

    return case()


def _part_count(ctx, n):
    run_cases(ctx, c03.collect(count_strategy(), n, ctx.seed * 1000 + ctx.shard + 700), judge_count, batch=500)


# ---------------------------------------------------------------------------
# repository-level battery (two subprocesses: extensions on / forced off)


def run_battery(mode, seed, n):
    env = dict(os.environ)
    env["PYTHONHASHSEED"] = "0"
    env["VERIF_REPO"] = REPO
    p = subprocess.run([sys.executable, "-m", "vf.battery", mode, str(seed), str(n)], cwd=VERIF_DIR, env=env, capture_output=True, text=True)
    if p.returncode != 0:
        return ("error", p.stderr[-1500:])
    return ("ok", json.loads(p.stdout))


def _part_battery(ctx, item):
    seed, n = item
    a = run_battery("pure", seed, n)
    b = run_battery("rust", seed, n)
    if a[0] == "error" and b[0] == "error":
        raise HarnessError("battery failed in both configurations:\n" + a[1])
    if a[0] != b[0]:
        ctx.fail("C15:battery:one-side-crashed", f"battery: pure={a[0]} rust={b[0]}: {(a[1] if a[0] == 'error' else b[1])[-600:]}", "battery", dict(seed=seed, n=n))
        return
    ra, rb = a[1], b[1]
    if ra["mode"] != "pure" or rb["mode"] != "rust":
        raise HarnessError(f"battery configurations not as requested: {ra['mode']}/{rb['mode']}")
    for i, (x, y) in enumerate(zip(ra["results"], rb["results"])):
        diff = [k for k in x if x[k] != y.get(k)]
        if diff:
            ctx.fail(f"C15:battery:{'+'.join(sorted(diff))}", f"repository-level results differ in {diff} for scenario {i} (seed {seed}): pure={ {k: x[k] for k in diff}!r:.300} rust={ {k: y[k] for k in diff}!r:.300}", "battery", dict(seed=seed, n=n))
        ctx.case(("battery", seed, i), nontrivial=True, labels=("battery",), sample=dict(fn="battery", seed=seed, scenario=i, keys=sorted(x)) if i == 0 else None)


# ---------------------------------------------------------------------------


def run(ctx):
    impls()
    import time

    def timed(name, fn, items):
        t = time.time()
        ctx.parallel(fn, items)
        ctx.note("wall_" + name, round(time.time() - t, 1))

    L = ctx.scale(4, 5)
    ctx.note("exhaustive", True)
    ctx.note("exhaustive_mode_string_length", L)
    timed("parse_tree_exhaustive", _part_parse_tree_exhaustive, [(L, 16, k) for k in range(16)])
    timed("parse_tree", _part_parse_tree, [ctx.scale(300, 12000)] * 16)
    timed("sorted", _part_sorted, [ctx.scale(250, 12000)] * 16)
    timed("apply_exhaustive", _part_apply_exhaustive, [(ctx.scale(4, 5), 16, k) for k in range(16)])
    timed("apply_mutants", _part_apply_mutants, [ctx.scale(165, 8000)] * 16)
    timed("create", _part_create, [ctx.scale(40, 2500)] * 16)
    timed("bisect", _part_bisect, [ctx.scale(200, 10000)] * 16)
    timed("merge", _part_merge, [ctx.scale(200, 10000)] * 16)
    timed("count", _part_count, [ctx.scale(150, 6000)] * 16)
    run_cases(ctx, [("is_tree", S_IFMTS + [(1 << 32) - 1, 1 << 31, 0o40000 | 0o777, 0o140000])], judge_is_tree_modes)
    timed("battery", _part_battery, [(ctx.seed * 100 + k, ctx.scale(2, 12)) for k in range(ctx.scale(8, 64))])
    # coverage-guided differential campaigns (E3): coverage of the Python twin steers, the oracle compares with Rust
    from .. import fuzz

    t = time.time()
    fuzz.run_campaigns(ctx, "vf.fuzzt.c15", [(name, ctx.scale(8000, 600000), ctx.scale(4, 4)) for name in ("parse_tree", "count_blocks", "create_delta", "sorted_tree_items")])
    ctx.note("wall_fuzz", round(time.time() - t, 1))


_JUDGES = {}


def _judges():
    if not _JUDGES:
        _JUDGES.update({"parse_tree": judge_parse_tree, "sorted_tree_items": judge_sorted, "apply_delta": judge_apply,
                        "create_delta": judge_create, "bisect_find_sha": judge_bisect, "merge_entries": judge_merge,
                        "count_blocks": judge_count, "is_tree": judge_is_tree_modes})
    return _JUDGES


def replay(ctx, check, case):
    if check.startswith("fuzz"):
        from .. import fuzz

        return fuzz.replay(ctx, case, check)
    if check == "battery":
        _part_battery(ctx, (case["seed"], case["n"]))
        return
    if check not in _judges():
        raise HarnessError(f"unknown check {check!r}")
    if "args" in case:  # a death record carries the original tuple
        tup = tuple([check] + list(case["args"]))
    elif check == "parse_tree":
        tup = (check, case["text"], case["sha_len"], case["strict"])
    elif check == "sorted_tree_items":
        tup = (check, [tuple(e) for e in case["entries"]], case["name_order"])
    elif check == "apply_delta":
        tup = (check, case["base"], case["delta"])
    elif check == "create_delta":
        tup = (check, case["base"], case["target"])
    elif check == "bisect_find_sha":
        tup = (check, case["kind"], case["start"], case["end"], case["sha"], case["table"])
    elif check == "merge_entries":
        tup = (check, case["path"], case["e1"], case["e2"])
    elif check == "count_blocks":
        tup = (check, case["chunks"])
    elif check == "is_tree":
        if not isinstance(case.get("mode"), int):
            return
        tup = (check, [case["mode"]])
    sandbox.isolated(ctx, _judges()[check], [tup], on_death)
