"""C01 — object names are content hashes; serialisation is lossless and git-identical.

Three engines share one interpreter (``run_case``):

* **machine**: a live dulwich object is built (every order of setter calls) or
  parsed (from_string / from_raw_string / from_raw_chunks / loose-file bytes),
  then a drawn sequence of public mutators and observers is applied.  A *model
  record* is updated alongside; at every observer the object's id / bytes /
  length / copy / field values must be those of the record serialised by the
  reference model (``vf/model/c01_ref.py``, written from git's grammar) and
  hashed with hashlib.
* **records**: for every generated record, build -> parse -> compare fields,
  and for every field: parse, observe, set the field to itself / to a new
  value, and demand the bytes of the reference serialisation of the edited
  record (every other byte reproduced).
* **git**: batches of records are serialised by dulwich and handed to C git:
  ``hash-object -w`` (names), ``fsck --strict`` (well-formedness), ``mktree``
  from the unsorted entries (the ``name/`` ordering rule), ``fast-import``,
  ``commit-tree`` and ``mktag`` as independent *writers* of the same logical
  object (bytes must be identical), in SHA-1 and SHA-256 repositories.
"""

from __future__ import annotations

import copy as _copy
import io
import itertools
import os
import re
import shutil
import zlib

from .. import cgit
from ..core import HarnessError, h64, run_hypothesis
from ..gen import c01_gen as gen
from ..model import c01_ref as ref

PROPERTY = "C01"
LEVEL = "exploration"
NEEDS_RUST = True
AUTO_TWINS = False  # this module drives both implementations explicitly
RULE = (
    "Hypothesis-generated cases over git's canonical object grammar (blobs of any bytes/chunking; trees with names around "
    "'/' in byte order, all five legal modes, file/dir/gitlink prefix-collision families; commits with 0..4 parents, odd-byte "
    "identities, negative/huge times, zones [+-]HHMM incl. -0000, encoding, mergetags, multi-line extra headers, PGP/SSH "
    "gpgsig, None/empty/unterminated messages; tags of all four target types with/without tagger and signature; 40- and "
    "64-hex ids; Rust and Python tree back ends).  machine: start (setters in a drawn permutation, or one of five parse "
    "entry points) + <=14 drawn mutator/observer steps; records: per record build/parse plus one parse-edit-serialise case "
    "per field (to itself, to a new value); git: batches of ~16 objects judged by hash-object, fsck --strict, mktree, "
    "fast-import, commit-tree, mktag.  Non-trivial = a mutator ran after an observer had filled the caches, or the record "
    "has one of {multi-line header, mergetag, signature, non-UTF-8 identity, -0000, negative or >=2^32 time, dir/file prefix "
    "collision that changes the sort order, SHA-256}; distinct by the hash of the whole case."
)
ASSUMPTIONS = [
    "the reference serialiser (vf/model/c01_ref.py) is git's grammar; it is validated in every run against git 2.39.5 "
    "(hash-object, mktree, fast-import, commit-tree, mktag) and a disagreement with git is a harness error, not a violation",
    "hashlib's SHA-1/SHA-256 are correct",
    "canonical grammar = what git's writers emit: separator line always present, header order tree/parent*/author/committer/"
    "[encoding]/mergetag*/other extras/[gpgsig], zone minutes 00..59, extra header values non-empty, tag messages without a "
    "signature marker; objects git merely accepts are checked for naming only (label accepted-not-emitted)",
    "in-place mutation of a list obtained from a getter (commit.parents.append, blob.chunked.append) is not a setter call "
    "and is not generated",
    "git fsck cannot judge negative or >2^62 timestamps (unsigned timestamp_t in 2.39); such records are excluded from the "
    "git oracles only",
]

_T = {"blob": "Blob", "tree": "Tree", "commit": "Commit", "tag": "Tag"}


# ---------------------------------------------------------------------------
# dulwich access (imported lazily: vf.run installs the Rust extension first)


class _D:
    loaded = False


def _d():
    if not _D.loaded:
        import dulwich.objects as o
        from dulwich.errors import ChecksumMismatch, ObjectFormatException
        from dulwich.object_format import SHA1, SHA256

        _D.o = o
        _D.SHA1 = SHA1
        _D.SHA256 = SHA256
        _D.ChecksumMismatch = ChecksumMismatch
        _D.ObjectFormatException = ObjectFormatException
        _D.cls = {"blob": o.Blob, "tree": o.Tree, "commit": o.Commit, "tag": o.Tag}
        _D.py = (o._parse_tree_py, o._sorted_tree_items_py)
        _D.rs = (getattr(o, "_parse_tree_rs", None), getattr(o, "_sorted_tree_items_rs", None))
        _D.loaded = True
    return _D


def set_backend(which):
    d = _d()
    if which == "py":
        d.o.parse_tree, d.o.sorted_tree_items = d.py
    else:
        if d.rs[0] is None or d.rs[1] is None:
            raise HarnessError("Rust tree back end not loaded (NEEDS_RUST)")
        d.o.parse_tree, d.o.sorted_tree_items = d.rs


def _fmt(fmt):
    d = _d()
    return d.SHA256 if fmt == "sha256" else d.SHA1


# ---------------------------------------------------------------------------
# record features (labels / non-triviality)


def _utf8(b):
    try:
        b.decode("utf-8")
        return True
    except UnicodeDecodeError:
        return False


def _time_feats(t, out):
    if t is None:
        return
    if t < 0:
        out.add("neg-time")
    elif t >= 2**32:
        out.add("huge-time")


def features(rec, fmt="sha1"):
    out = set()
    if fmt == "sha256":
        out.add("sha256")
    t = rec["t"]
    if t == "tree":
        if ref.tree_has_prefix_collision(rec["entries"]):
            out.add("dir-file-prefix-collision")
        if any(m == ref.MODE_GITLINK for _, m, _ in rec["entries"]):
            out.add("gitlink")
            names = {n for n, _, _ in rec["entries"]}
            for n, m, _ in rec["entries"]:
                if m == ref.MODE_GITLINK and any(o != n and o.startswith(n) and o[len(n)] < 0x2F for o in names):
                    out.add("gitlink-with-low-sibling")  # sorts differently if a gitlink were taken for a directory
    elif t == "commit":
        if rec.get("mergetag"):
            out.add("mergetag")
        if rec.get("gpgsig"):
            out.add("signature")
        if rec.get("gpgsig") or rec.get("mergetag") or any(b"\n" in v for _, v in rec.get("extra") or ()):
            out.add("multi-line-header")
        if rec.get("extra"):
            out.add("extra-header")
        if not _utf8(rec["author"]) or not _utf8(rec["committer"]):
            out.add("non-utf8-identity")
        if rec["author_tz"] == (0, True) or rec["commit_tz"] == (0, True):
            out.add("-0000")
        _time_feats(rec["author_time"], out)
        _time_feats(rec["commit_time"], out)
        if len(rec["parents"]) >= 2:
            out.add("merge")
        if not rec.get("message"):
            out.add("no-message")
        if rec.get("encoding"):
            out.add("encoding")
    elif t == "tag":
        if rec.get("signature"):
            out.add("signature")
        if rec.get("tagger"):
            if not _utf8(rec["tagger"]):
                out.add("non-utf8-identity")
            if rec["tag_tz"] == (0, True):
                out.add("-0000")
            _time_feats(rec["tag_time"], out)
        else:
            out.add("no-tagger")
        if not rec.get("message"):
            out.add("no-message")
    return out


_NONTRIVIAL_FEATS = {"multi-line-header", "mergetag", "signature", "non-utf8-identity", "-0000", "neg-time", "huge-time",
                     "dir-file-prefix-collision", "sha256"}


# ---------------------------------------------------------------------------
# diagnosis of a byte mismatch -> narrow bucket


def _split_tree(data, idlen):
    out = []
    pos = 0
    n = len(data)
    while pos < n:
        sp = data.find(b" ", pos)
        if sp < 0:
            return None
        nul = data.find(b"\0", sp)
        if nul < 0 or nul + 1 + idlen > n:
            return None
        out.append((data[pos:sp], data[sp + 1 : nul], data[nul + 1 : nul + 1 + idlen]))
        pos = nul + 1 + idlen
    return out


_IDENT_KEYS = (b"author", b"committer", b"tagger")


def diff_class(typ, fmt, got, exp):
    if typ == "blob":
        return "content"
    if typ == "tree":
        idlen = 20 if fmt == "sha1" else 32
        ge = _split_tree(got, idlen)
        ee = _split_tree(exp, idlen)
        if ge is None or ee is None:
            return "unparsable"
        if sorted(ge) == sorted(ee):
            return "order"
        if sorted(e[1] for e in ge) == sorted(e[1] for e in ee):
            if sorted((e[1], e[2]) for e in ge) == sorted((e[1], e[2]) for e in ee):
                return "mode-spelling"
            return "entry-content"
        return "entry-set"
    gh, gsep, gb = got.partition(b"\n\n")
    eh, esep, eb = exp.partition(b"\n\n")
    # a header block that ends the object ("...\n" + "\n" + "") partitions with the LF of the last header kept apart
    if gh == eh:
        if gsep != esep:
            return "separator"
        return "body"
    gl = gh.split(b"\n")
    el = eh.split(b"\n")
    i = 0
    while i < len(gl) and i < len(el) and gl[i] == el[i]:
        i += 1
    src = el if i < len(el) else gl
    j = min(i, len(src) - 1)
    while j > 0 and src[j].startswith(b" "):
        j -= 1
    key = src[j].split(b" ", 1)[0]
    known = (b"tree", b"parent", b"author", b"committer", b"encoding", b"mergetag", b"gpgsig", b"object", b"type", b"tag", b"tagger")
    key_s = key.decode("ascii") if key in known else "extra"
    if sorted(gl) == sorted(el):
        return f"header-order:{key_s}"
    if key in _IDENT_KEYS and i < len(gl) and i < len(el) and gl[i].startswith(key + b" "):
        gp = gl[i].rsplit(b" ", 2)
        ep = el[i].rsplit(b" ", 2)
        if len(gp) == 3 and len(ep) == 3:
            if gp[0] != ep[0]:
                return f"{key_s}:ident"
            if gp[1] != ep[1]:
                return f"{key_s}:time"
            if ep[2][:1] == b"+" and gp[2][:1] == b"-":
                return f"{key_s}:tz:forced-negative"  # "--100", "-0059" for +0100, +0001
            return f"{key_s}:tz"
    if len(gl) < len(el) and gl == el[:i] + el[i + (len(el) - len(gl)):]:
        return f"header-lost:{key_s}"
    return f"header:{key_s}"


def _short(b, n=160):
    if b is None:
        return "None"
    if len(b) <= n:
        return repr(b)
    return f"{b[:n // 2]!r}...{b[-n // 2:]!r}<{len(b)} bytes>"


# ---------------------------------------------------------------------------
# the interpreter


class _Stop(Exception):
    pass


def _norm_msg(m):
    return m or b""


def _split_chunks(data, seed):
    if not data:
        return [[], [b""], [b"", b""]][seed % 3]
    cuts = sorted({(seed * 2654435761 + k * 40503) % (len(data) + 1) for k in range(1 + seed % 3)})
    out = []
    last = 0
    for p in cuts:
        out.append(data[last:p])
        last = p
    out.append(data[last:])
    return out


class Live:
    def __init__(self, ctx, case, check="machine"):
        self.ctx = ctx
        self.case = case
        self.check = check
        self.typ = case["type"]
        self.T = _T[self.typ]
        self.fmt = case["fmt"]
        self.obj = None
        self.model = None
        self.amb = set()  # timezone fields whose "-0000" spelling may or may not survive a set-to-0
        self.pending = []  # mutators since the last successful verification
        self.last_mut = "none"  # the last mutator applied (root-cause key for stale caches)
        self.prev_bytes = set()  # expected bytes at the last successful verification
        self.observed = False
        self.setter_after_observer = False
        self.steps = 0

    # -- reporting ------------------------------------------------------
    def fail(self, bucket, message):
        self.ctx.fail(bucket, message + f" [last mutator {self.last_mut}]", self.check, self.case)
        raise _Stop()

    def sut(self, opname, fn, *a, **kw):
        try:
            return fn(*a, **kw)
        except Exception as e:  # dulwich raised on an input from the canonical grammar: an outcome, reported as such
            self.fail(f"C01:exception:{self.T}:{opname}:{type(e).__name__}", f"{opname} raised {type(e).__name__}: {e}")

    # -- model helpers ----------------------------------------------------
    def model_record(self, m=None):
        m = self.model if m is None else m
        if self.typ == "tree":
            return {"t": "tree", "fmt": self.fmt, "entries": [(n, mo, h) for n, (mo, h) in m.items()]}
        return m

    def candidates(self):
        if not self.amb:
            return [(self.model, ref.serialise(self.model_record()))]
        amb = sorted(self.amb)
        out = []
        for bits in itertools.product([False, True], repeat=len(amb)):
            r = dict(self.model)
            for k, b in zip(amb, bits):
                r[k] = (0, b)
            out.append((r, ref.serialise(r)))
        return out

    def _after_deserialize(self):
        """What re-parsing its own bytes does to state that is not in the bytes."""
        m = self.model
        if self.typ == "tag" and not m.get("tagger"):
            m["tag_time"] = None
            m["tag_tz"] = None

    # -- construction -------------------------------------------------------
    def _mk_tag(self, rec):
        """A dulwich Tag for a record (used as a mergetag value); never carries -0000."""
        d = _d()
        t = d.o.Tag()
        t.object = (d.cls[rec["otype"].decode()], rec["object"])
        t.name = rec["name"]
        if rec.get("tagger"):
            t.tagger = rec["tagger"]
            t.tag_time = rec["tag_time"]
            t.tag_timezone = rec["tag_tz"][0]
        t.message = rec.get("message")
        t.signature = rec.get("signature")
        return t

    @staticmethod
    def _no_neg(rec):
        """Records reachable through setters only: the -0000 spelling needs a parse."""
        rec = _copy.deepcopy(rec)
        for k in ("author_tz", "commit_tz", "tag_tz"):
            if rec.get(k) is not None:
                rec[k] = (rec[k][0], False)
        for t in rec.get("mergetag") or ():
            if t.get("tag_tz") is not None:
                t["tag_tz"] = (t["tag_tz"][0], False)
        return rec

    def start(self):
        d = _d()
        kind, rec, arg = self.case["start"]
        rec = _copy.deepcopy(rec)
        if self.typ == "tree":
            set_backend(self.case["backend"])
        if kind == "build":
            obj = d.cls[self.typ]()
            if self.typ == "blob":
                if len(rec["chunks"]) == 1:
                    obj.data = rec["chunks"][0]
                else:
                    obj.chunked = list(rec["chunks"])
                self.model = {"t": "blob", "chunks": list(rec["chunks"])}
            elif self.typ == "tree":
                self.model = {}
                for n, mo, h in rec["entries"]:
                    self.sut("Tree.add", obj.add, n, mo, h)
                    self.model[n] = (mo, h)
            else:
                rec = self._no_neg(rec)
                if self.typ == "commit":
                    rec["extra"] = []  # no public setter: extra headers only arrive by parsing
                self.model = rec
                self.obj = obj
                for f in arg:
                    self._build_field(f)
            self.obj = obj
            self.pending.append("build")
            self.last_mut = "build"
        else:
            self.model = rec if self.typ != "tree" else {}
            if self.typ == "tree":
                for n, mo, h in rec["entries"]:
                    self.model[n] = (mo, h)
            data = ref.serialise(self.model_record())
            self.obj = self._parse(None, data, arg)
            self._after_deserialize()
            self.pending.append(f"parse:{arg[0]}")
            self.last_mut = f"parse:{arg[0]}"

    def _build_field(self, f):
        obj, m = self.obj, self.model
        if self.typ == "commit":
            if f == "mergetag":
                v = [self._mk_tag(t) for t in m["mergetag"]]
                m["mergetag"] = [self._no_neg(t) for t in m["mergetag"]]
            elif f == "author_timezone":
                v = m["author_tz"][0]
            elif f == "commit_timezone":
                v = m["commit_tz"][0]
            elif f == "parents":
                v = list(m["parents"])
            else:
                v = m[f]
            setattr(obj, f, v)
        else:
            if f == "object":
                obj.object = (_d().cls[m["otype"].decode()], m["object"])
            elif f == "tag_timezone":
                if m["tag_tz"] is not None:
                    obj.tag_timezone = m["tag_tz"][0]
            elif f == "tag_time":
                if m["tag_time"] is not None:
                    obj.tag_time = m["tag_time"]
            elif f == "tagger":
                if m["tagger"] is not None:
                    obj.tagger = m["tagger"]
            else:
                setattr(obj, f, m[f])

    def _parse(self, obj, data, how):
        """Parse `data` into a new object (obj None) or into the live one."""
        d = _d()
        kind, seed = how
        cls = d.cls[self.typ]
        of = d.SHA256 if self.fmt == "sha256" else None
        tree256 = self.typ == "tree" and self.fmt == "sha256"
        sha1 = ref.object_id(self.typ.encode(), data, "sha1")
        if obj is None:
            if kind == "from_string":
                return self.sut("from_string", cls.from_string, data)
            if kind == "raw_string":
                return self.sut("from_raw_string", d.o.ShaFile.from_raw_string, cls.type_num, data, object_format=of)
            if kind == "raw_string_sha":
                return self.sut("from_raw_string", d.o.ShaFile.from_raw_string, cls.type_num, data, sha1)
            if kind == "raw_chunks":
                return self.sut("from_raw_chunks", d.o.ShaFile.from_raw_chunks, cls.type_num, _split_chunks(data, seed), object_format=of)
            if kind == "legacy_file":
                blob = zlib.compress(self.typ.encode() + b" %d\0" % len(data) + data)
                return self.sut("from_file", d.o.ShaFile.from_file, io.BytesIO(blob), object_format=of)
            raise HarnessError(f"unknown parse variant {kind!r}")
        if kind == "raw_string" and not tree256:
            self.sut("set_raw_string", obj.set_raw_string, data)
        elif kind == "raw_string_sha" and not tree256:
            self.sut("set_raw_string", obj.set_raw_string, data, sha1)
        elif kind in ("raw_chunks", "raw_string", "raw_string_sha"):
            self.sut("set_raw_chunks", obj.set_raw_chunks, _split_chunks(data, seed), object_format=of)
        else:
            raise HarnessError(f"unknown reparse variant {kind!r}")
        return obj

    # -- mutators -------------------------------------------------------------
    def _set_tz(self, key, attr, v):
        old = self.model[key]
        setattr(self.obj, attr, v)
        if old is not None and v == old[0]:
            if old == (0, True) or key in self.amb:
                self.amb.add(key)  # "-0000" rewritten with the same offset: either spelling is acceptable
            return
        self.amb.discard(key)
        self.model[key] = (v, False)

    def mutate(self, op):
        obj, m = self.obj, self.model
        kind = op[0]
        name = None
        if kind == "reparse":
            _, rec, how = op
            rec = _copy.deepcopy(rec)
            if self.typ == "tree":
                self.model = {}
                for n, mo, h in rec["entries"]:
                    self.model[n] = (mo, h)
            else:
                self.model = rec
            self.amb.clear()
            self._parse(obj, ref.serialise(self.model_record()), how)
            self._after_deserialize()
            name = f"reparse:{how[0]}"
        elif self.typ == "blob":
            f = op[1]
            if kind == "same":
                v = self.sut(f"get:{f}", getattr, obj, f)
                self.sut(f"same:{f}", setattr, obj, f, v)
                name = f"same:{f}"
            else:
                v = op[2]
                if f == "data":
                    self.sut("set:data", setattr, obj, "data", v)
                    m["chunks"] = [v]
                else:
                    self.sut("set:chunked", setattr, obj, "chunked", list(v))
                    m["chunks"] = list(v)
                name = f"set:{f}"
        elif self.typ == "tree":
            if kind in ("add", "setitem"):
                _, n, mo, h = op
                if kind == "add":
                    self.sut("Tree.add", obj.add, n, mo, h)
                else:
                    self.sut("Tree.__setitem__", obj.__setitem__, n, (mo, h))
                m[n] = (mo, h)
                name = kind
            else:
                names = list(m)
                if not names:
                    return
                n = names[op[1] % len(names)]
                if kind == "del":
                    self.sut("Tree.__delitem__", obj.__delitem__, n)
                    del m[n]
                elif kind == "remode":
                    self.sut("Tree.__setitem__", obj.__setitem__, n, (op[2], op[3]))
                    m[n] = (op[2], op[3])
                elif kind == "same":
                    v = self.sut("Tree.__getitem__", obj.__getitem__, n)
                    self.sut("Tree.__setitem__", obj.__setitem__, n, v)
                else:
                    raise HarnessError(f"unknown tree op {op!r}")
                name = kind
        elif self.typ == "commit":
            f = op[1]
            if kind == "same":
                v = self.sut(f"get:{f}", getattr, obj, f)
                if f in ("author_timezone", "commit_timezone"):
                    key = "author_tz" if f == "author_timezone" else "commit_tz"
                    self.sut(f"same:{f}", self._set_tz, key, f, v)
                else:
                    self.sut(f"same:{f}", setattr, obj, f, v)
                name = f"same:{f}"
            else:
                v = op[2]
                if f == "author_timezone":
                    self.sut(f"set:{f}", self._set_tz, "author_tz", f, v)
                elif f == "commit_timezone":
                    self.sut(f"set:{f}", self._set_tz, "commit_tz", f, v)
                elif f == "mergetag":
                    recs = [self._no_neg(t) for t in v]
                    self.sut("set:mergetag", setattr, obj, f, [self._mk_tag(t) for t in recs])
                    m["mergetag"] = recs
                elif f == "parents":
                    self.sut("set:parents", setattr, obj, f, list(v))
                    m["parents"] = list(v)
                else:
                    self.sut(f"set:{f}", setattr, obj, f, v)
                    m[f] = v
                name = f"set:{f}"
        else:  # tag
            f = op[1]
            if kind == "same":
                v = self.sut(f"get:{f}", getattr, obj, f)
                if f == "tag_timezone" and m["tag_tz"] is not None:
                    self.sut(f"same:{f}", self._set_tz, "tag_tz", f, v)
                else:
                    self.sut(f"same:{f}", setattr, obj, f, v)
                name = f"same:{f}"
            else:
                v = op[2]
                if f == "object":
                    self.sut("set:object", setattr, obj, "object", (_d().cls[v[0].decode()], v[1]))
                    m["otype"], m["object"] = v
                elif f == "tagger":
                    if v is None:
                        self.sut("set:tagger", setattr, obj, "tagger", None)
                        m["tagger"] = None
                    else:
                        ident, t, z = v
                        self.sut("set:tagger", setattr, obj, "tagger", ident)
                        m["tagger"] = ident
                        if m["tag_time"] is None:
                            self.sut("set:tag_time", setattr, obj, "tag_time", t)
                            m["tag_time"] = t
                        if m["tag_tz"] is None:
                            self.sut("set:tag_timezone", setattr, obj, "tag_timezone", z)
                            m["tag_tz"] = (z, False)
                elif f == "tag_timezone":
                    self.sut("set:tag_timezone", self._set_tz, "tag_tz", f, v)
                elif f == "tag_time":
                    self.sut("set:tag_time", setattr, obj, f, v)
                    m["tag_time"] = v
                else:
                    self.sut(f"set:{f}", setattr, obj, f, v)
                    m[f] = v
                name = f"set:{f}"
        self.pending.append(name)
        self.last_mut = name
        if self.observed:
            self.setter_after_observer = True

    # -- observers ----------------------------------------------------------------
    def _resolve(self, cand_model):
        if self.amb:
            self.model = dict(cand_model)
            self.amb.clear()

    def _mut_key(self):
        """Root-cause key of the last mutator: `field=` for set/same, else the entry point."""
        k, sep, f = self.last_mut.partition(":")
        return f"{f}=" if sep and k in ("set", "same") else self.last_mut

    def _diagnose(self, what, got, cands):
        """No candidate matches the observation: work out the root-cause bucket."""
        exp = cands[0][1]
        last = self._mut_key()
        raw = self.sut("as_raw_string", self.obj.as_raw_string)
        if what in ("id", "id256", "sha", "hash"):
            fm = "sha256" if what == "id256" else "sha1"
            own = ref.object_id(self.typ.encode(), raw, fm)
            if got != own:
                self.fail(
                    f"C01:stale-id:{self.T}:{last}",
                    f"{self.T} {what} is {got!r} but its own bytes {_short(raw)} hash to {own!r}",
                )
        elif what == "len":
            if got != len(raw):
                self.fail(f"C01:stale-len:{self.T}:{last}", f"raw_length() {got} but as_raw_string() has {len(raw)} bytes")
        if any(raw == c[1] for c in cands):
            if what in ("raw", "chunks", "copy-raw"):
                self.fail(f"C01:unstable-bytes:{self.T}:{what}:{last}", f"{what} gave {_short(got)} but as_raw_string() now gives the expected bytes")
            raise HarnessError(f"observer {what} mismatch not reproducible: got {got!r}")
        if raw in self.prev_bytes:
            self.fail(
                f"C01:stale-bytes:{self.T}:{last}",
                f"{self.T} still serialises to the bytes from before {self.pending}: {_short(raw)}; expected {_short(exp)}",
            )
        self.fail(
            f"C01:bytes:{self.T}:{diff_class(self.typ, self.fmt, raw, exp)}",
            f"{self.T} serialises to {_short(raw, 400)}; the record serialises to {_short(exp, 400)}",
        )

    def observe(self, kind):
        d = _d()
        obj = self.obj
        tree256 = self.typ == "tree" and self.fmt == "sha256"
        if kind in ("check", "copy") and tree256:
            kind = "id256"  # a tree built by Tree() does not know it holds 32-byte ids; check()/copy() re-parse
        cands = self.candidates()
        tn = self.typ.encode()
        ok = None
        if kind == "id":
            got = self.sut("id", lambda: obj.id)
            ok = [c for c in cands if ref.object_id(tn, c[1], "sha1") == got]
        elif kind == "id256":
            got = self.sut("get_id", obj.get_id, d.SHA256)
            ok = [c for c in cands if ref.object_id(tn, c[1], "sha256") == got]
        elif kind == "sha":
            got = self.sut("sha", lambda: obj.sha().hexdigest().encode("ascii"))
            ok = [c for c in cands if ref.object_id(tn, c[1], "sha1") == got]
        elif kind == "hash":
            h = self.sut("hash", hash, obj)
            ok = [c for c in cands if hash(ref.object_id(tn, c[1], "sha1")) == h]
            got = b"<hash %d>" % h
            if not ok:
                got = self.sut("id", lambda: obj.id)
                kind = "id"
        elif kind == "raw":
            got = self.sut("as_raw_string", obj.as_raw_string)
            ok = [c for c in cands if c[1] == got]
        elif kind == "chunks":
            got = b"".join(self.sut("as_raw_chunks", obj.as_raw_chunks))
            ok = [c for c in cands if c[1] == got]
        elif kind == "len":
            got = self.sut("raw_length", obj.raw_length)
            ok = [c for c in cands if len(c[1]) == got]
            if len(ok) > 1:
                ok = None  # cannot tell the candidates apart by length; no resolution
                self.observed = True
                return
        elif kind == "eq":
            # compare with an object parsed from the expected bytes; `==` compares names
            if tree256:
                others = [d.o.ShaFile.from_raw_string(2, c[1], object_format=d.SHA256) for c in cands]
            else:
                others = [d.cls[self.typ].from_string(c[1]) for c in cands]
            res = [self.sut("__eq__", obj.__eq__, o2) for o2 in others]
            ok = [c for c, r in zip(cands, res) if r]
            got = self.sut("id", lambda: obj.id)
            kind = "id"
        elif kind == "copy":
            cp = self.sut("copy", obj.copy)
            got = self.sut("copy.as_raw_string", cp.as_raw_string)
            ok = [c for c in cands if c[1] == got]
            if ok:
                cid = self.sut("copy.id", lambda: cp.id)
                if cid != ref.object_id(tn, got, "sha1"):
                    if self.sut("id", lambda: obj.id) == cid:
                        # copy() hands the original's cached name to the copy: the original's name is the stale one
                        self.fail(f"C01:stale-id:{self.T}:{self._mut_key()}",
                                  f"{self.T} id (and its copy's) is {cid!r} but the bytes {_short(got)} hash to {ref.object_id(tn, got, 'sha1')!r}")
                    self.fail(f"C01:copy-id:{self.T}", f"copy().id {cid!r} is not the hash of the copy's bytes {_short(got)}")
                self._resolve(ok[0][0])
                self._fields(cp, "copy")
            kind = "copy-raw"
        elif kind == "check":
            try:
                obj.check()
            except d.ChecksumMismatch as e:
                self.fail(f"C01:stale-id:{self.T}:{self._mut_key()}", f"check() reports the cached name does not match the content: {e}")
            except d.ObjectFormatException:
                self.ctx.label("check()-rejects")  # dulwich's own lint is stricter than the grammar; not judged here
            except Exception as e:  # check()'s verdict is not part of C01; only what it does to the caches is
                self.ctx.label(f"check()-raises-{type(e).__name__}")
            self._after_deserialize()
            got = self.sut("as_raw_string", obj.as_raw_string)
            ok = [c for c in cands if c[1] == got]
            kind = "raw"
        elif kind == "fields":
            got = self.sut("as_raw_string", obj.as_raw_string)
            ok = [c for c in cands if c[1] == got]
            if ok:
                self._resolve(ok[0][0])
                self._fields(obj, "live")
            kind = "raw"
        else:
            raise HarnessError(f"unknown observer {kind!r}")
        if not ok:
            self._diagnose(kind, got, cands)
        self._resolve(ok[0][0])
        self.observed = True
        self.pending = []
        self.prev_bytes = {c[1] for c in self.candidates()}

    def _fields(self, obj, where):
        """Getter values against the model (oracle 2: build/parse returns the same values)."""
        m = self.model
        T = self.T

        def cmp(field, got, want):
            if got != want:
                self.fail(f"C01:fields:{T}.{field}:{where}", f"{T}.{field} is {got!r}, the record says {want!r}")

        g = lambda name: self.sut(f"get:{name}", getattr, obj, name)
        if self.typ == "blob":
            want = b"".join(m["chunks"])
            cmp("data", g("data"), want)
            cmp("chunked", b"".join(g("chunked")), want)
        elif self.typ == "tree":
            want = ref.sort_entries([(n, mo, h) for n, (mo, h) in m.items()])
            got = [tuple(e) for e in self.sut("items", obj.items)]
            cmp("items", got, want)
            cmp("len", self.sut("len", len, obj), len(want))
            got_no = [tuple(e) for e in self.sut("iteritems", lambda: list(obj.iteritems(name_order=True)))]
            cmp("iteritems(name_order)", got_no, sorted(want))
            for n, (mo, h) in list(m.items())[:3]:
                cmp("getitem", tuple(self.sut("getitem", obj.__getitem__, n)), (mo, h))
        elif self.typ == "commit":
            cmp("tree", g("tree"), m["tree"])
            cmp("parents", list(g("parents")), list(m["parents"]))
            cmp("author", g("author"), m["author"])
            cmp("committer", g("committer"), m["committer"])
            cmp("author_time", g("author_time"), m["author_time"])
            cmp("commit_time", g("commit_time"), m["commit_time"])
            cmp("author_timezone", g("author_timezone"), m["author_tz"][0])
            cmp("commit_timezone", g("commit_timezone"), m["commit_tz"][0])
            cmp("encoding", g("encoding") or None, m.get("encoding") or None)
            cmp("gpgsig", g("gpgsig") or None, m.get("gpgsig") or None)
            cmp("message", _norm_msg(g("message")), _norm_msg(m.get("message")))
            got_mt = [self.sut("mergetag.as_raw_string", t.as_raw_string) for t in g("mergetag")]
            cmp("mergetag", got_mt, [ref.ser_tag(t) for t in m.get("mergetag") or ()])
        else:
            oc, osha = g("object")
            cmp("object", (oc.type_name, osha), (m["otype"], m["object"]))
            cmp("name", g("name"), m["name"])
            cmp("tagger", g("tagger"), m.get("tagger"))
            if m.get("tagger"):
                cmp("tag_time", g("tag_time"), m["tag_time"])
                cmp("tag_timezone", g("tag_timezone"), m["tag_tz"][0])
            cmp("message", _norm_msg(g("message")), _norm_msg(m.get("message")))
            cmp("signature", g("signature") or None, m.get("signature") or None)

    # -- driver ------------------------------------------------------------------------
    def run(self):
        self.start()
        for op in self.case["ops"]:
            self.steps += 1
            if op[0] == "obs":
                self.observe(op[1])
            else:
                self.mutate(tuple(op))
        # every case ends with the two observations the statement is about
        self.observe("id")
        self.observe("raw")


def start_record(case):
    return case["start"][1]


def run_case(ctx, case, check="machine", extra_labels=()):
    """Execute one case; returns True if it ran to the end without a finding."""
    live = Live(ctx, case, check)
    ok = True
    try:
        live.run()
    except _Stop:
        ok = False
    finally:
        if case["type"] == "tree":
            set_backend("rs")
    feats = features(start_record(case), case["fmt"])
    nt = live.setter_after_observer or bool(feats & _NONTRIVIAL_FEATS)
    labels = [f"type:{case['type']}", f"start:{case['start'][0]}"] + [f"feat:{f}" for f in sorted(feats)] + list(extra_labels)
    if case["type"] == "tree":
        labels.append(f"tree-backend:{case['backend']}")
    if live.setter_after_observer:
        labels.append("setter-after-observer")
    # one sample per shard, the type rotating with the shard, so that the ten evidence samples are a spread
    want = ("blob", "tree", "commit", "tag")[ctx.shard % 4]
    sample = case if (nt and not ctx.samples and case["type"] == want and live.setter_after_observer and len(repr(case)) < 1500) else None
    ctx.case(("case", repr(case)), nontrivial=nt, labels=labels, sample=sample)
    return ok


# ---------------------------------------------------------------------------
# bounded minimiser (Hypothesis' own shrinker costs minutes when 16 shards each find a failure)

_ID1 = b"01" + b"00" * 19
_SIMPLE = {
    "commit": {"tree": None, "parents": [], "author": b"A <a@b>", "author_time": 0, "author_tz": (0, False), "committer": b"C <c@d>",
               "commit_time": 0, "commit_tz": (0, False), "encoding": None, "mergetag": [], "extra": [], "gpgsig": None, "message": b"m\n"},
    "tag": {"object": None, "otype": None, "name": b"v", "tagger": b"T <t@e>", "tag_time": 0, "tag_tz": (0, False), "message": b"m\n",
            "signature": None},
}
_SIMPLE_SET = {"author": b"A <a@b>", "committer": b"C <c@d>", "author_time": 1, "commit_time": 1, "tag_time": 1, "author_timezone": 3600,
               "commit_timezone": 3600, "tag_timezone": 3600, "encoding": None, "mergetag": [], "gpgsig": None, "message": b"n\n",
               "parents": [], "name": b"w", "signature": None, "data": b"x", "chunked": [b"x"]}


def _reproduces(ctx, case, bucket):
    sub = ctx.child(ctx.shard)
    sub.raise_mode = False
    try:
        run_case(sub, case, "machine")
    except Exception:  # a candidate the interpreter cannot run is simply not a reduction (nothing is judged here)
        return None
    finally:
        sub.cleanup()
    v = sub.violations.get(bucket)
    return v["message"] if v else None


def _rec_candidates(rec):
    """Simpler variants of a record, one change each."""
    t = rec["t"]
    if t == "blob":
        if rec["chunks"] != [b"x"]:
            yield dict(rec, chunks=[b"x"])
        if rec["chunks"]:
            yield dict(rec, chunks=[])
        return
    if t == "tree":
        es = rec["entries"]
        for i in range(len(es)):
            yield dict(rec, entries=es[:i] + es[i + 1:])
        for i, (n, m, h) in enumerate(es):
            if len(n) > 1:
                yield dict(rec, entries=es[:i] + [(n[:-1], m, h)] + es[i + 1:])
        return
    simple = _SIMPLE[t]
    for k, sv in simple.items():
        if sv is None and k in ("tree", "object", "otype"):
            continue
        if k in ("tag_time", "tag_tz", "tagger"):
            if t == "tag" and rec.get("tagger") is None:
                continue
        if rec.get(k) != sv:
            yield dict(rec, **{k: sv})
    for k in ("parents", "mergetag", "extra"):
        lst = rec.get(k) or []
        if len(lst) > 1:
            for i in range(len(lst)):
                yield dict(rec, **{k: lst[:i] + lst[i + 1:]})
    if t == "tag" and rec.get("tagger") is not None:
        yield dict(rec, tagger=None, tag_time=None, tag_tz=None)


def minimise_case(ctx, case, bucket, budget=400):
    """Greedy one-change-at-a-time reduction that keeps the same root-cause bucket."""
    best = case
    msg = None
    spent = 0
    changed = True
    while changed and spent < budget:
        changed = False
        cands = []
        ops = best["ops"]
        for i in range(len(ops) - 1, -1, -1):
            cands.append(dict(best, ops=ops[:i] + ops[i + 1:]))
        kind, rec, arg = best["start"]
        for r2 in _rec_candidates(rec):
            cands.append(dict(best, start=(kind, r2, arg)))
        if kind == "parse" and arg[0] != "from_string" and not (best["type"] == "tree" and best["fmt"] == "sha256"):
            cands.append(dict(best, start=(kind, rec, ("from_string", 0))))
        for i, op in enumerate(ops):
            if op[0] == "set" and op[1] in _SIMPLE_SET and op[2] != _SIMPLE_SET[op[1]]:
                cands.append(dict(best, ops=ops[:i] + [("set", op[1], _SIMPLE_SET[op[1]])] + ops[i + 1:]))
            if op[0] == "reparse":
                for r2 in _rec_candidates(op[1]):
                    cands.append(dict(best, ops=ops[:i] + [("reparse", r2, op[2])] + ops[i + 1:]))
        for c in cands:
            spent += 1
            m = _reproduces(ctx, c, bucket)
            if m is not None:
                best, msg, changed = c, m, True
                break
            if spent >= budget:
                break
    return best, msg


def _minimising(fn):
    """Wrap a Hypothesis test: a machine-case Violation is minimised here (Phase.shrink is off)."""
    from ..core import Violation

    def test(ctx, value):
        try:
            fn(ctx, value)
        except Violation as v:
            if v.check != "machine":
                raise
            saved = ctx.raise_mode
            ctx.raise_mode = False
            try:
                case, msg = minimise_case(ctx, v.case, v.bucket)
            finally:
                ctx.raise_mode = saved
            raise Violation(v.bucket, msg or v.message, "machine", case) from None

    return test


def _search(ctx, strategy, fn, n):
    run_hypothesis(ctx, strategy, _minimising(fn), max_examples=n, shrink=False, max_rounds=3)


# ---------------------------------------------------------------------------
# part M: the machine


def _part_machine(ctx, n):
    _search(ctx, gen.machine_cases(), lambda c, case: run_case(c, case, "machine", ("part:machine",)), n)


# ---------------------------------------------------------------------------
# part R: build / parse / edit one field


def _record_cases():
    from hypothesis import strategies as st

    def for_tf(tf):
        typ, fmt = tf
        base = {
            "type": st.just(typ),
            "fmt": st.just(fmt),
            "backend": st.sampled_from(["rs", "py"]) if typ == "tree" else st.just("-"),
            "rec": gen.records(typ, fmt),
            "how": gen.parse_hows(fmt, typ),
            "obs": st.sampled_from(["id", "id", "id256", "raw", "sha", "copy", "len", "eq"]),
        }
        if typ == "commit":
            base["edits"] = st.fixed_dictionaries(gen.commit_field_values(fmt))
            base["order"] = st.permutations(gen.COMMIT_FIELDS)
        elif typ == "tag":
            base["edits"] = st.fixed_dictionaries(gen.tag_field_values(fmt))
            base["order"] = st.permutations(gen.TAG_FIELDS)
        elif typ == "tree":
            base["edits"] = st.fixed_dictionaries(
                {"new": gen.tree_entries(fmt),
                 "remode": st.tuples(gen.tree_modes, gen.raw_ids(fmt)).map(lambda t: (t[0], gen.typed_hex(t[1], gen.mode_kind(t[0]))))}
            )
            base["order"] = st.just([])
        else:
            base["edits"] = st.fixed_dictionaries({"data": gen.blob_bytes, "chunked": gen.blob_chunks})
            base["order"] = st.just([])
        return st.fixed_dictionaries(base)

    tfs = [("blob", "sha1"), ("tree", "sha1"), ("tree", "sha1"), ("tree", "sha256"), ("commit", "sha1"), ("commit", "sha1"),
           ("commit", "sha1"), ("commit", "sha256"), ("tag", "sha1"), ("tag", "sha1"), ("tag", "sha256")]
    built = {tf: for_tf(tf) for tf in set(tfs)}
    return st.one_of([built[tf] for tf in tfs])


def record_subcases(v):
    """The list of interpreter cases for one generated record."""
    typ, fmt, rec = v["type"], v["fmt"], v["rec"]
    base = {"type": typ, "fmt": fmt, "backend": v["backend"]}
    out = []
    tail = [("obs", "raw"), ("obs", "id"), ("obs", "id256"), ("obs", "copy")]
    parse = ("parse", rec, tuple(v["how"]))
    buildable = typ in ("blob", "tree") or not rec.get("extra")
    if buildable:
        out.append(dict(base, start=("build", rec, list(v["order"])), ops=[("obs", "fields")] + tail))
    out.append(dict(base, start=parse, ops=[("obs", "fields")] + tail))
    pre = [("obs", v["obs"])]
    if typ == "commit":
        fields = gen.COMMIT_FIELDS
    elif typ == "tag":
        fields = gen.TAG_FIELDS
    elif typ == "blob":
        fields = ["data", "chunked"]
    else:
        fields = []
    for f in fields:
        out.append(dict(base, start=parse, ops=pre + [("same", f)] + tail))
        out.append(dict(base, start=parse, ops=pre + [("set", f, v["edits"][f])] + tail + [("obs", "fields")]))
    if typ == "tree":
        n = len({e[0] for e in rec["entries"]})
        e = v["edits"]
        for i in range(min(n, 4)):
            out.append(dict(base, start=parse, ops=pre + [("same", i)] + tail))
            out.append(dict(base, start=parse, ops=pre + [("del", i)] + tail + [("obs", "fields")]))
            out.append(dict(base, start=parse, ops=pre + [("remode", i) + tuple(e["remode"])] + tail + [("obs", "fields")]))
        out.append(dict(base, start=parse, ops=pre + [("add",) + tuple(e["new"])] + tail + [("obs", "fields")]))
    return out


def _judge_record(ctx, v):
    for sub in record_subcases(v):
        if not run_case(ctx, sub, "machine", ("part:records",)):
            return


def _part_records(ctx, n):
    _search(ctx, _record_cases(), _judge_record, n)


# ---------------------------------------------------------------------------
# part G: C git as judge (names, fsck --strict) and as independent writer (mktree, fast-import, commit-tree, mktag)

GIT_TIME_MAX = 2**62  # git 2.39 has an unsigned timestamp_t; fsck reports badDateOverflow near the top of the range


class _Tmpl:
    cache = {}


def _template(ctx, fmt):
    """A bare repository with one blob, tree, three commits and a tag to point at (per process and format)."""
    key = (os.getpid(), fmt)
    if key in _Tmpl.cache:
        return _Tmpl.cache[key]
    path = ctx.scratch.new("tmpl-" + fmt)
    cgit.init(path, bare=True, object_format=fmt if fmt == "sha256" else None)
    o = lambda args, inp=None: cgit.out(args, cwd=path, input=inp).strip()
    blob = o(["hash-object", "-w", "--stdin"], b"pool blob\n")
    tree = o(["mktree"], b"100644 blob " + blob + b"\tf\n")
    c0 = o(["commit-tree", "-m", "c0", tree.decode()])
    c1 = o(["commit-tree", "-m", "c1", "-p", c0.decode(), tree.decode()])
    c2 = o(["commit-tree", "-m", "c2", tree.decode()])
    tag = o(["mktag"], b"object " + c0 + b"\ntype commit\ntag pool\ntagger T <t@e> 0 +0000\n\nm\n")
    pool = {"blob": [blob], "tree": [tree], "commit": [c0, c1, c2], "tag": [tag]}
    for v in pool.values():
        for i in v:
            if len(i) != gen.hexlen(fmt):
                raise HarnessError(f"template repository ({fmt}) gave an id of unexpected length: {i!r}")
    _Tmpl.cache[key] = (path, pool)
    return path, pool


def _times_ok(rec):
    ts = [rec.get("author_time"), rec.get("commit_time")] if rec["t"] == "commit" else [rec.get("tag_time") if rec.get("tagger") else 0]
    ts += [t["tag_time"] for t in rec.get("mergetag") or ()]
    return all(t is not None and 0 <= t <= GIT_TIME_MAX for t in ts)


def _crud(c):
    return c <= 32 or c in b".,:;<>\"\\'"


def _clean_ident_part(b, allow_empty):
    if not b:
        return allow_empty
    return not _crud(b[0]) and not _crud(b[-1])


def _split_ident(ident):
    name, _, rest = ident.partition(b" <")
    return name, rest[:-1]


def _strip_crud(b):
    i, j = 0, len(b)
    while i < j and _crud(b[i]):
        i += 1
    while j > i and _crud(b[j - 1]):
        j -= 1
    return b[i:j]


def _ct_variant(v):
    """The commit `git commit-tree` can be asked for: ident.c strips 'crud' from the ends of names and mails,
    date.c normalises -0000, commit.c drops duplicate parents, omits 'encoding UTF-8' and re-codes undeclared
    non-UTF-8 text; the variant is the nearest record inside those rules (built, not filtered)."""
    w = _copy.deepcopy(v)
    for who in ("author", "committer"):
        name, mail = _split_ident(w[who])
        w[who] = (_strip_crud(name) or b"N") + b" <" + _strip_crud(mail) + b">"
    for k in ("author_time", "commit_time"):
        w[k] = abs(w[k]) % 2**40
    for k in ("author_tz", "commit_tz"):
        w[k] = (w[k][0], False)
    w["parents"] = list(dict.fromkeys(w["parents"]))
    enc = w.get("encoding")
    if enc and enc.lower().replace(b"-", b"") == b"utf8":
        w["encoding"] = None
    if not w.get("encoding") and not _utf8(ref.ser_commit(w)):
        w["encoding"] = b"ISO-8859-1"
    if not _commit_tree_eligible(w):
        raise HarnessError(f"commit-tree variant construction is incomplete for {w!r}")
    return w


def _commit_tree_eligible(rec):
    for who in ("author", "committer"):
        name, mail = _split_ident(rec[who])
        if not _clean_ident_part(name, False) or not _clean_ident_part(mail, True):
            return False
    for k in ("author_time", "commit_time"):
        if not 0 <= rec[k] <= 2**40:
            return False
    if rec["author_tz"] == (0, True) or rec["commit_tz"] == (0, True):
        return False  # git's own date parser normalises -0000 to +0000; only fast-import passes it through
    enc = rec.get("encoding")
    if enc and enc.lower().replace(b"-", b"") == b"utf8":
        return False  # git omits the header for its default encoding
    if not enc and not _utf8(ref.ser_commit(rec)):
        return False  # commit.c:verify_utf8 rewrites stray high bytes as Latin-1 when no encoding is declared
    return True


def _fi_variant(rec, pool, i):
    """The record with its links replaced by real objects, restricted to what fast-import can be told."""
    v = _copy.deepcopy(rec)
    if rec["t"] == "commit":
        v["tree"] = pool["tree"][0]
        v["parents"] = [pool["commit"][(k + i) % 3] for k in range(len(rec["parents"]))]
        v["mergetag"] = []
        v["extra"] = []
        v["gpgsig"] = None
    else:
        v["object"] = pool[rec["otype"].decode()][0]
        # fast-import also updates refs/tags/<name>: the name must be a valid, per-stream unique ref name
        v["name"] = (v["name"] if v["name"] in gen.REFSAFE_TAG_NAMES else b"t") + b"-%d" % i
    return v


def _fi_stream(variants):
    out = []
    for i, v in variants:
        if v["t"] == "commit":
            out.append(b"commit refs/heads/b%d\nmark :%d\n" % (i, i + 1))
            out.append(b"author " + ref.fmt_ident_line(v["author"], v["author_time"], v["author_tz"]) + b"\n")
            out.append(b"committer " + ref.fmt_ident_line(v["committer"], v["commit_time"], v["commit_tz"]) + b"\n")
            if v.get("encoding"):
                out.append(b"encoding " + v["encoding"] + b"\n")
            out.append(ref.fi_data(v.get("message") or b""))
            for k, p in enumerate(v["parents"]):
                out.append((b"from " if k == 0 else b"merge ") + p + b"\n")
            out.append(b"M 040000 " + v["tree"] + b" \n\n")
        else:
            out.append(b"tag " + v["name"] + b"\nmark :%d\n" % (i + 1))
            out.append(b"from " + v["object"] + b"\n")
            if v.get("tagger"):
                out.append(b"tagger " + ref.fmt_ident_line(v["tagger"], v["tag_time"], v["tag_tz"]) + b"\n")
            out.append(ref.fi_data((v.get("message") or b"") + (v.get("signature") or b"")))
    return b"".join(out)


_FSCK_LINE = re.compile(rb"^(error|warning) in (\w+) ([0-9a-f]{40,64}): (\w+):(.*)$")


def _dulwich_object(ctx, rec, fmt, backend, check, case):
    """dulwich's bytes and name for a record, through setters where the record is reachable by setters."""
    typ = rec["t"]
    setter_reachable = typ in ("blob", "tree") or not (
        rec.get("extra") or any(rec.get(k) == (0, True) for k in ("author_tz", "commit_tz", "tag_tz"))
        or any(t.get("tag_tz") == (0, True) for t in rec.get("mergetag") or ())
    )
    if setter_reachable:
        order = {"commit": gen.COMMIT_FIELDS, "tag": gen.TAG_FIELDS}.get(typ, [])
        start = ("build", rec, list(order))
        ops = []
    else:
        start = ("parse", rec, ("from_string", 0))
        ops = [("same", "message")]  # marks the object dirty: the bytes below are re-serialised, not the cached input
    sub = {"type": typ, "fmt": fmt, "backend": backend, "start": start, "ops": ops}
    live = Live(ctx, sub, "machine")
    try:
        live.run()
        d = _d()
        name = live.obj.get_id(d.SHA256) if fmt == "sha256" else live.obj.id
        return live.obj.as_raw_string(), name
    except _Stop:
        return None
    finally:
        if typ == "tree":
            set_backend("rs")


def judge_git_batch(ctx, batch, check="git"):
    fmt = batch["fmt"]
    items = batch["items"]
    tmpl, pool = _template(ctx, fmt)
    repo = os.path.join(ctx.scratch.path, "g")
    if os.path.exists(repo):
        shutil.rmtree(repo)
    shutil.copytree(tmpl, repo)
    try:
        _judge_git_batch(ctx, batch, fmt, items, pool, repo, check)
    finally:
        shutil.rmtree(repo, ignore_errors=True)


def _judge_git_batch(ctx, batch, fmt, items, pool, repo, check):
    case = {"fmt": fmt, "items": items}
    # fast-import / commit-tree / mktag variants are extra logical objects, judged like the generated ones
    work = []  # (record, role, index)
    for i, rec in enumerate(items):
        work.append((rec, "gen", i))
    variants = []
    for i, rec in enumerate(items):
        if rec["t"] in ("commit", "tag") and _times_ok(rec):
            v = _fi_variant(rec, pool, i)
            variants.append((i, v))
            work.append((v, "variant", i))
    done = []  # (record, role, index, bytes, name)
    for k, (rec, role, i) in enumerate(work):
        r = _dulwich_object(ctx, rec, fmt, "py" if k % 2 else "rs", check, case)
        feats = features(rec, fmt)
        ctx.case(("git", fmt, role, repr(rec)), nontrivial=bool(feats & _NONTRIVIAL_FEATS),
                 labels=["part:git", f"git:{role}:{rec['t']}"] + [f"feat:{f}" for f in sorted(feats)])
        if r is not None:
            done.append((rec, role, i, r[0], r[1]))
    if not done:
        return
    # from here on dulwich's bytes equal the reference serialisation (established above), so git judges both
    # -- names: hash-object -w
    files = {}
    for k, (rec, role, i, data, name) in enumerate(done):
        fn = os.path.join(repo, f"o{k}")
        with open(fn, "wb") as f:
            f.write(data)
        files.setdefault(rec["t"], []).append((fn, k))
    git_name = {}
    for typ, lst in files.items():
        rc, out, err = cgit.git(["hash-object", "-w", "-t", typ, "--stdin-paths"], cwd=repo,
                                input=b"".join(fn.encode() + b"\n" for fn, _ in lst), check=False)
        ids = out.split()
        if rc != 0 or len(ids) != len(lst):
            raise HarnessError(f"git hash-object -t {typ} refused a canonical object: {err[:300]!r}; batch {case!r}"[:3000])
        for (fn, k), gid in zip(lst, ids):
            git_name[k] = gid
    for k, (rec, role, i, data, name) in enumerate(done):
        if git_name[k] != name:
            ctx.fail(f"C01:git-name:{_T[rec['t']]}:{fmt}", f"dulwich names {_short(data)} {name!r}, git hash-object {git_name[k]!r}",
                     check, case)
            return
    # -- well-formedness: fsck --strict (link errors are expected: the ids point nowhere)
    rc, out, err = cgit.git(["fsck", "--strict", "--no-dangling", "--no-progress"], cwd=repo, check=False)
    if b"fatal:" in err:
        raise HarnessError(f"git fsck died: {err[:400]!r}")
    by_name = {name: (rec, role) for rec, role, i, data, name in done}
    for line in (out + err).split(b"\n"):
        m = _FSCK_LINE.match(line)
        if not m or m.group(1) != b"error":
            continue
        hit = by_name.get(m.group(3))
        if hit is None:
            continue
        rec, role = hit
        if not _times_ok(rec) and m.group(4).startswith(b"badDate"):
            ctx.label("git:fsck-cannot-judge-time")
            continue
        raise HarnessError(
            f"git fsck --strict rejects an object of the 'canonical' grammar ({m.group(4).decode()}): generator over-reach; "
            f"record {rec!r}"[:3000]
        )
    ctx.label("git:fsck-strict-clean", n=len(done))
    # -- trees: git sorts the unsorted entry list itself
    trees = [(rec, name) for rec, role, i, data, name in done if rec["t"] == "tree"]
    if trees:
        inp = []
        for rec, name in trees:
            last = {}
            for n, mo, h in rec["entries"]:
                last[n] = (mo, h)
            for n, (mo, h) in last.items():
                kind = b"tree" if mo == ref.MODE_DIR else b"commit" if mo == ref.MODE_GITLINK else b"blob"
                inp.append(b"%06o %s %s\t%s\0" % (mo, kind, h, n))
            inp.append(b"\0")
        got = cgit.out(["mktree", "-z", "--missing", "--batch"], cwd=repo, input=b"".join(inp)).split()
        if len(got) != len(trees):
            raise HarnessError(f"git mktree --batch returned {len(got)} ids for {len(trees)} trees")
        for (rec, name), gid in zip(trees, got):
            if gid != name:
                gb = cgit.out(["cat-file", "tree", gid.decode()], cwd=repo)
                ctx.fail(f"C01:git-mktree:{diff_class('tree', fmt, ref.serialise(rec), gb)}",
                         f"git mktree builds {_short(gb, 300)} ({gid!r}) from the entries {rec['entries']!r}; dulwich built {name!r}",
                         check, case)
                return
        ctx.label("git:mktree-agrees", n=len(trees))
    name_of = {(role, i): (name, data) for rec, role, i, data, name in done}
    # -- git as writer: fast-import
    fi = [(i, v) for i, v in variants if ("variant", i) in name_of]
    if fi:
        marks = os.path.join(repo, "marks")
        rc, out, err = cgit.git(["fast-import", "--date-format=raw-permissive", "--quiet", "--export-marks=" + marks], cwd=repo,
                                input=_fi_stream(fi), check=False)
        if rc != 0:
            raise HarnessError(f"git fast-import failed on a canonical stream: {err[:400]!r}; {fi!r}"[:3000])
        got = {}
        with open(marks, "rb") as f:
            for line in f:
                mk, gid = line.split()
                got[int(mk[1:]) - 1] = gid
        for i, v in fi:
            name, data = name_of[("variant", i)]
            if got.get(i) != name:
                gb = cgit.out(["cat-file", v["t"], got[i].decode()], cwd=repo) if i in got else None
                # dulwich == reference model here, so this is the model (or the stream encoder) disagreeing with git
                raise HarnessError(f"git fast-import wrote {gb!r} for {v!r}; the reference model says {data!r}"[:3000])
        ctx.label("git:fast-import-identical", n=len(fi))
    # -- git as writer/judge: mktag (strict), commit-tree; one process each, so only a few per batch
    n_mktag = 0
    n_ct = 0
    for i, v in variants:
        if ("variant", i) not in name_of:
            continue
        name, data = name_of[("variant", i)]
        if v["t"] == "tag" and v.get("tagger") and n_mktag < 3:
            n_mktag += 1
            rc, out, err = cgit.git(["mktag"], cwd=repo, input=data, check=False)
            if rc != 0:
                raise HarnessError(f"git mktag rejects a canonical tag: {err[:300]!r}; {v!r}"[:3000])
            if out.strip() != name:
                raise HarnessError(f"git mktag names {data!r} {out.strip()!r}, hashlib {name!r}")
            ctx.label("git:mktag-accepts")
        elif v["t"] == "commit" and n_ct < 2:
            n_ct += 1
            w = _ct_variant(v)
            parents = w["parents"]
            r = _dulwich_object(ctx, w, fmt, "rs", check, case)
            feats = features(w, fmt)
            ctx.case(("git", fmt, "commit-tree", repr(w)), nontrivial=bool(feats & _NONTRIVIAL_FEATS),
                     labels=["part:git", "git:commit-tree-variant"] + [f"feat:{f}" for f in sorted(feats)])
            if r is None:
                continue
            data, name = r
            an, am = _split_ident(w["author"])
            cn, cm = _split_ident(w["committer"])
            env = {
                "GIT_AUTHOR_NAME": an, "GIT_AUTHOR_EMAIL": am,
                "GIT_AUTHOR_DATE": b"@%d " % w["author_time"] + ref.fmt_tz(w["author_tz"]),
                "GIT_COMMITTER_NAME": cn, "GIT_COMMITTER_EMAIL": cm,
                "GIT_COMMITTER_DATE": b"@%d " % w["commit_time"] + ref.fmt_tz(w["commit_tz"]),
            }
            args = []
            if w.get("encoding"):
                args += ["-c", b"i18n.commitEncoding=" + w["encoding"]]
            args += ["commit-tree", w["tree"].decode()]
            for p in parents:
                args += ["-p", p.decode()]
            args += ["-F", "-"]
            rc, out, err = cgit.git(args, cwd=repo, input=w.get("message") or b"", check=False, extra_env=env)
            if rc != 0:
                raise HarnessError(f"git commit-tree failed: {err[:300]!r}; {w!r}"[:3000])
            if out.strip() != name:
                gb = cgit.out(["cat-file", "commit", out.strip().decode()], cwd=repo)
                raise HarnessError(f"git commit-tree wrote {gb!r} for {w!r}; the reference model says {data!r}"[:3000])
            ctx.label("git:commit-tree-identical")


def _git_batches():
    from hypothesis import strategies as st

    def for_fmt(fmt):
        item = st.one_of(gen.blob_records, gen.tree_records(fmt), gen.tree_records(fmt), gen.commit_records(fmt), gen.commit_records(fmt),
                         gen.tag_records(fmt))
        return st.fixed_dictionaries({"fmt": st.just(fmt), "items": st.lists(item, min_size=4, max_size=14)})

    b1, b256 = for_fmt("sha1"), for_fmt("sha256")
    return st.one_of(b1, b1, b256)


def _part_git(ctx, n):
    _search(ctx, _git_batches(), lambda c, b: judge_git_batch(c, b), n)


# ---------------------------------------------------------------------------
# part A: objects git accepts but never writes -- naming only (the statement quantifies over the canonical grammar)

ANE_KINDS = {
    "commit": ["no-separator", "encoding-before-author", "extra-before-mergetag", "gpgsig-before-extra", "tz-5-digits", "tz-minutes-90",
               "tz-double-minus", "time-plus-sign", "time-underscore", "empty-extra-value", "duplicate-author"],
    "tag": ["no-separator", "tagger-without-time", "tz-minutes-90", "tagger-before-tag"],
    "tree": ["unsorted", "duplicate-name", "zero-padded-mode", "mode-100664", "mode-100600"],
}


def ane_bytes(rec, kind):
    """Non-canonical bytes derived from a canonical record (None if the record has nothing to derive from)."""
    t = rec["t"]
    if t == "tree":
        es = ref.sort_entries(list({n: (n, m, h) for n, m, h in rec["entries"]}.values()))
        if not es:
            return None
        if kind == "unsorted":
            if len(es) < 2:
                return None
            return ref.ser_tree_sorted(es[::-1])
        if kind == "duplicate-name":
            return ref.ser_tree_sorted(es[:1] + es)
        if kind == "zero-padded-mode":
            return b"".join(b"%06o " % m + n + b"\0" + bytes.fromhex(h.decode()) for n, m, h in es)
        mode = 0o100664 if kind == "mode-100664" else 0o100600
        return ref.ser_tree_sorted([(es[0][0], mode, es[0][2])] + es[1:])
    data = ref.serialise(rec)
    head, sep, body = data.partition(b"\n\n")
    lines = head.split(b"\n")

    def idx(key):
        for i, l in enumerate(lines):
            if l.startswith(key + b" "):
                return i
        return None

    who = b"author" if t == "commit" else b"tagger"
    if kind == "no-separator":
        return head + b"\n" if not body else None
    if kind in ("tz-5-digits", "tz-minutes-90", "tz-double-minus", "time-plus-sign", "time-underscore", "tagger-without-time"):
        i = idx(who)
        if i is None:
            return None
        ident, tm, tz = lines[i].rsplit(b" ", 2)
        if kind == "tz-5-digits":
            tz = b"+00000"
        elif kind == "tz-minutes-90":
            tz = b"+0090"
        elif kind == "tz-double-minus":
            tz = b"--700"
        elif kind == "time-plus-sign":
            tm = b"+5"
        elif kind == "time-underscore":
            tm = b"1_000"
        lines[i] = ident if kind == "tagger-without-time" else b" ".join([ident, tm, tz])
    elif kind == "encoding-before-author":
        lines.insert(idx(b"author"), b"encoding latin1")
    elif kind == "duplicate-author":
        lines.insert(idx(b"author"), lines[idx(b"author")])
    elif kind == "empty-extra-value":
        lines.append(b"x-empty ")
    elif kind == "tagger-before-tag":
        i, j = idx(b"tag"), idx(b"tagger")
        if j is None:
            return None
        lines[i], lines[j] = lines[j], lines[i]
    elif kind in ("extra-before-mergetag", "gpgsig-before-extra"):
        first, second = (b"mergetag", None) if kind == "extra-before-mergetag" else (None, b"gpgsig")
        # move one whole (possibly multi-line) header in front of another
        blocks = []
        for l in lines:
            if l.startswith(b" ") and blocks:
                blocks[-1].append(l)
            else:
                blocks.append([l])
        keys = [b[0].split(b" ", 1)[0] for b in blocks]
        if kind == "extra-before-mergetag":
            if b"mergetag" not in keys:
                return None
            blocks.insert(keys.index(b"mergetag"), [b"x-early v"])
        else:
            if b"gpgsig" not in keys:
                return None
            blocks.append([b"x-late v"])
        lines = [l for b in blocks for l in b]
    else:
        raise HarnessError(f"unknown accepted-not-emitted kind {kind!r}")
    return b"\n".join(lines) + sep + body


def judge_ane(ctx, v, check="ane"):
    d = _d()
    rec, kind, fmt = v["rec"], v["kind"], v["fmt"]
    typ = rec["t"]
    data = ane_bytes(rec, kind)
    labels = ["part:accepted-not-emitted", f"ane:{typ}:{kind}"]
    if data is None:
        ctx.case(("ane", repr(v)), nontrivial=False, labels=labels + ["ane:not-applicable"])
        return
    tn = typ.encode()
    of = d.SHA256 if fmt == "sha256" else None
    if typ == "tree":
        set_backend(v["backend"])
    try:
        try:
            obj = d.o.ShaFile.from_raw_string(ref.TYPE_NUM[tn], data, object_format=of)
        except Exception as e:  # rejecting (or choking on) what git never writes is allowed; counted, not judged
            ctx.case(("ane", repr(v)), nontrivial=False, labels=labels + [f"ane:rejected:{type(e).__name__}"])
            return

        def name_ok(step):
            raw = obj.as_raw_string()
            for f, got in (("sha1", obj.id), ("sha256", obj.get_id(d.SHA256))):
                want = ref.object_id(tn, raw, f)
                if got != want:
                    ctx.fail(f"C01:ane-naming:{_T[typ]}:{kind}:{step}",
                             f"{_T[typ]} parsed from non-canonical bytes {_short(data)}: after {step} the {f} name is {got!r} "
                             f"but its bytes {_short(raw)} hash to {want!r}", check, v)
                    return None
            return raw

        raw = name_ok("parse")
        if raw is None:
            return
        if raw != data:
            ctx.fail(f"C01:ane-naming:{_T[typ]}:{kind}:cached-text", f"as_raw_string() right after parsing {_short(data)} gives {_short(raw)}",
                     check, v)
            return
        # touch: forces a re-serialisation from the parsed fields
        try:
            if typ == "tree":
                n = next(iter(obj))
                obj[n] = obj[n]
            else:
                obj.message = obj.message
            raw2 = name_ok("touch")
        except Exception as e:
            ctx.case(("ane", repr(v)), nontrivial=True, labels=labels + [f"ane:reserialise-raises:{type(e).__name__}"])
            return
        if raw2 is None:
            return
        labels.append("ane:roundtrip-same" if raw2 == data else "ane:roundtrip-differs")
        if typ == "tree":
            obj.add(b"zz-new", ref.MODE_FILE, gen.typed_hex(b"\x07" * (20 if fmt == "sha1" else 32), "blob"))
        elif typ == "commit":
            obj.commit_time = 12345
        else:
            obj.name = b"renamed"
        if name_ok("edit") is None:
            return
        ctx.case(("ane", repr(v)), nontrivial=True, labels=labels)
    finally:
        if typ == "tree":
            set_backend("rs")


def _ane_cases():
    from hypothesis import strategies as st

    def for_tf(tf):
        typ, fmt = tf
        return st.fixed_dictionaries(
            {"rec": gen.records(typ, fmt), "kind": st.sampled_from(ANE_KINDS[typ]), "fmt": st.just(fmt),
             "backend": st.sampled_from(["rs", "py"]) if typ == "tree" else st.just("-")}
        )

    return st.one_of([for_tf(tf) for tf in [("commit", "sha1"), ("tag", "sha1"), ("tree", "sha1"), ("tree", "sha256"), ("commit", "sha256")]])


def _part_ane(ctx, n):
    _search(ctx, _ane_cases(), lambda c, v: judge_ane(c, v), n)


# ---------------------------------------------------------------------------


def selftest(ctx):
    cgit.selfcheck()
    d = _d()
    if d.rs[0] is None:
        raise HarnessError("dulwich._objects (Rust) is not loaded although NEEDS_RUST is set")
    if d.o.parse_tree is not d.rs[0] or d.o.sorted_tree_items is not d.rs[1]:
        raise HarnessError("dulwich.objects does not use the Rust tree functions by default")
    # known answers from git's documentation / test suite
    known = [
        (b"tree", b"", "sha1", b"4b825dc642cb6eb9a060e54bf8d69288fbee4904"),
        (b"tree", b"", "sha256", b"6ef19b41225c5369f1c104d45d8d85efa9b057b53b14b4b9b939dd74decc5321"),
        (b"blob", b"", "sha1", b"e69de29bb2d1d6434b8b29ae775ad8c2e48c5391"),
        (b"blob", b"", "sha256", b"473a0f4c3be8a93681a267e3b1e9a7dcda1185436fe141f7749120a303721813"),
        (b"blob", b"hi\n", "sha1", b"45b983be36b73c0788dc9cbcb76cbb80fc7bb057"),
    ]
    for tn, body, f, want in known:
        if ref.object_id(tn, body, f) != want:
            raise HarnessError(f"reference object_id({tn!r}, {body!r}, {f}) is not {want!r}")
    # the sort rule on the textbook case: a directory "a" sorts after "a-" and "a." and before "a0"
    es = [(b"a0", ref.MODE_FILE, b"1" * 40), (b"a", ref.MODE_DIR, b"2" * 40), (b"a.", ref.MODE_FILE, b"3" * 40), (b"a-", ref.MODE_FILE, b"4" * 40),
          (b"a", ref.MODE_GITLINK, b"5" * 40)]
    if [e[2][:1] for e in ref.sort_entries(es)] != [b"5", b"4", b"3", b"2", b"1"]:
        raise HarnessError("reference base_name_compare self-test failed")
    if ref.fmt_tz((0, True)) != b"-0000" or ref.fmt_tz((-1800, False)) != b"-0030" or ref.fmt_tz((359940, False)) != b"+9959":
        raise HarnessError("reference fmt_tz self-test failed")
    # one fixed batch through every git oracle (the bulk validation is part G)
    fixed = {
        "fmt": "sha1",
        "items": [
            {"t": "blob", "chunks": [b"a", b"", b"b\n"]},
            {"t": "tree", "fmt": "sha1", "entries": [(b"a0", ref.MODE_FILE, b"10" * 20), (b"a", ref.MODE_DIR, b"11" * 20),
                                                     (b"a.", ref.MODE_EXEC, b"14" * 20), (b"a-", ref.MODE_GITLINK, b"12" * 20)]},
            {"t": "commit", "tree": b"11" * 20, "parents": [b"12" * 20, b"16" * 20], "author": b"A U Thor <a@example.com>",
             "author_time": 1, "author_tz": (0, True), "committer": b"Caf\xc3\xa9 <c@d>", "commit_time": 2**32, "commit_tz": (-1800, False),
             "encoding": b"ISO-8859-1", "mergetag": [], "extra": [(b"x-custom", b"v\n\n lead")], "gpgsig": None, "message": b"no newline"},
            {"t": "tag", "object": b"12" * 20, "otype": b"commit", "name": b"v1.0", "tagger": b"T <t@e>", "tag_time": 5, "tag_tz": (3600, False),
             "message": b"m\n", "signature": None},
        ],
    }
    sub = ctx.child(ctx.shard)
    judge_git_batch(sub, fixed)
    sub.cleanup()
    if sub.violations:
        # not a harness problem: dulwich fails on the fixed examples; let the search report it properly
        ctx.notes.append("selftest batch: dulwich deviates on the fixed examples: " + ", ".join(sub.violations))
    need = ["git:fsck-strict-clean", "git:mktree-agrees", "git:fast-import-identical", "git:mktag-accepts", "git:commit-tree-identical"]
    if not sub.violations and any(sub.labels[l] == 0 for l in need):
        raise HarnessError(f"selftest batch did not reach every git oracle: {dict(sub.labels)}")


def _generator_floors(ctx):
    """A silent generator regression is a harness error (thorough) / a printed warning (quick), never a pass."""
    L = ctx.labels
    trees = max(1, L["type:tree"])
    ct = max(1, L["type:commit"] + L["type:tag"])
    cases = max(1, L["part:machine"] + L["part:records"])
    floors = [
        ("dir-file-prefix-collision / tree cases", L["feat:dir-file-prefix-collision"] / trees, 0.20),
        ("gitlink-with-low-sibling / tree cases", L["feat:gitlink-with-low-sibling"] / trees, 0.05),
        ("python tree back end / tree cases", L["tree-backend:py"] / trees, 0.30),
        ("rust tree back end / tree cases", L["tree-backend:rs"] / trees, 0.30),
        ("-0000 / commit+tag cases", L["feat:-0000"] / ct, 0.05),
        ("mergetag / commit+tag cases", L["feat:mergetag"] / ct, 0.05),
        ("multi-line header / commit+tag cases", L["feat:multi-line-header"] / ct, 0.10),
        ("setter after observer / machine+records cases", L["setter-after-observer"] / cases, 0.30),
    ] + [(f"{k} > 0", float(L[k] > 0), 1.0) for k in
         ("git:fsck-strict-clean", "git:mktree-agrees", "git:fast-import-identical", "git:commit-tree-identical", "git:mktag-accepts")]
    bad = [f"{what}: {got:.2f} < {floor:.2f}" for what, got, floor in floors if got < floor]
    if bad and not ctx.violations:
        msg = "GENERATOR-WARNING: " + "; ".join(bad)
        if ctx.thorough:
            raise HarnessError(msg)
        print(msg)
        ctx.notes.append(msg)


# ---------------------------------------------------------------------------
# part L: objects the way an object store hands them out (parsed from raw bytes, the name they were looked up by cached)


def _loaded_case():
    from hypothesis import strategies as st

    tfs = [("blob", "sha1"), ("tree", "sha1"), ("tree", "sha256"), ("commit", "sha1"), ("commit", "sha256"), ("tag", "sha1"), ("tag", "sha256")]
    return st.one_of([st.tuples(st.just(t), st.just(f), gen.records(t, f)) for t, f in tfs])


def judge_loaded(ctx, value, check="loaded"):
    """A store of either hash format caches the name it found the object under; an explicit request for the name in a
    given format must still be the hash of type, length and content in THAT format, in every state of the object."""
    import hashlib

    typ, fmt, rec = value
    return judge_loaded_raw(ctx, typ, fmt, ref.serialise(rec), check)


def judge_loaded_raw(ctx, typ, fmt, raw, check="loaded"):
    import hashlib

    d = _d()
    type_num = {"commit": 1, "tree": 2, "blob": 3, "tag": 4}[typ]
    of = {"sha1": d.SHA1, "sha256": d.SHA256}
    want = {f: hashlib.new(f, typ.encode() + b" " + str(len(raw)).encode() + b"\0" + raw).hexdigest().encode() for f in of}
    case = dict(type=typ, fmt=fmt, raw=raw)
    # a tree's entry ids have the length of the repository's format: it can only live in a store of that format
    stores = [fmt] if typ == "tree" else ["sha1", "sha256"]
    for store_fmt in stores:
        try:
            o = d.o.ShaFile.from_raw_string(type_num, raw, sha=want[store_fmt], object_format=of[store_fmt])
        except Exception as e:
            ctx.label(f"loaded:parse-refused:{type(e).__name__}")
            continue
        for state in ("fresh", "after-copy", "after-raw"):
            if state == "after-copy":
                try:
                    o = o.copy()
                except Exception:
                    break
            elif state == "after-raw":
                o.as_raw_string()
            for ask in ("sha1", "sha256"):
                for how, fn in (("get_id", lambda: o.get_id(of[ask])), ("sha", lambda: o.sha(of[ask]).hexdigest().encode())):
                    try:
                        got = fn()
                    except Exception as e:
                        got = f"raises {type(e).__name__}"
                    if got != want[ask]:
                        ctx.fail(f"C01:loaded:{typ}:{how}({ask})-of-object-from-{store_fmt}-store", f"{typ} loaded from a {store_fmt} store under its name ({state}): {how}({ask}) -> {got!r}, "
                                 f"the {ask} of type, length and content is {want[ask]!r}", check, case)
                        return
    ctx.case(("loaded", typ, fmt, raw), nontrivial=True, labels=("loaded", f"loaded:{typ}:{fmt}"))


def _part_loaded(ctx, n):
    run_hypothesis(ctx, _loaded_case(), judge_loaded, max_examples=n)


def run(ctx):
    selftest(ctx)
    ctx.note("git_version", cgit.version())
    ctx.parallel(_part_loaded, [ctx.scale(120, 4000)] * 16)
    import time  # part timings are evidence only (budget tuning); no oracle reads the clock

    for name, fn, n in (("machine", _part_machine, ctx.scale(220, 6500)), ("records", _part_records, ctx.scale(60, 2500)),
                        ("git", _part_git, ctx.scale(12, 400)), ("ane", _part_ane, ctx.scale(40, 1500))):
        t0 = time.time()
        ctx.parallel(fn, [n] * 16)
        ctx.note(f"wall_{name}_s", round(time.time() - t0, 1))
    _generator_floors(ctx)
    # coverage-guided campaigns over raw object bodies (E3): names are content hashes; a no-op edit of a parsed object that
    # git's writers could have emitted (and git fsck --strict passes) re-serialises to the same bytes
    from .. import fuzz

    t0 = time.time()
    fuzz.run_campaigns(ctx, "vf.fuzzt.c01", [("object_body", ctx.scale(10000, 300000), ctx.scale(8, 16))])
    ctx.note("wall_fuzz_s", round(time.time() - t0, 1))


def replay(ctx, check, case):
    if check.startswith("fuzz"):
        from .. import fuzz

        return fuzz.replay(ctx, case, check)
    _d()
    if check == "loaded":
        return judge_loaded_raw(ctx, case["type"], case["fmt"], case["raw"])
    if check == "machine":
        case = dict(case)
        case["start"] = tuple(case["start"])
        case["ops"] = [tuple(o) for o in case["ops"]]
        run_case(ctx, case, "machine")
    elif check == "git":
        judge_git_batch(ctx, {"fmt": case["fmt"], "items": case["items"]})
    elif check == "ane":
        judge_ane(ctx, case)
    else:
        raise HarnessError(f"unknown check {check!r}")
