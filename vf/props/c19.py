"""C19 — pkt-line and side-band framing round-trips under any read chunking."""

from __future__ import annotations

import hashlib
import itertools
import os
import random
import zlib

from .. import cgit
from ..core import HarnessError, Violation, run_hypothesis
from ..model import c19_judge as J
from ..model import c19_ref as R

PROPERTY = "C19"
LEVEL = "exploration"
NEEDS_RUST = False
RULE = (
    "round trip: payload sequences (flush, delim, empty, 1 byte, textures that look like pkt-line prefixes, boundary "
    "lengths 65515/65516 and, for the writers only, 65517..200000) are encoded by every dulwich writer (pkt_line, "
    "pkt_seq, write_pkt_line, BufferedPktLineWriter, write_sideband), the emitted bytes are parsed by an independent "
    "reference framer (protocol-common.txt) and decoded by every dulwich reader (Protocol/ReceivableProtocol."
    "read_pkt_line, read_pkt_seq, eof/unread, PktLineParser+get_tail, side-band demultiplexing, PackStreamReader/"
    "Copier, read_pkt_refs_v1, extract_capabilities) behind a transport whose recv(n) returns 1..n bytes: ALL "
    "compositions of the stream length for every item sequence whose encoding is <= 12 bytes (thorough: 14) plus a "
    "seeded pick of >= 3-frame sequences of <= 14 (16) bytes, drawn partitions with cuts placed around frame starts for "
    "long ones.  decoder input: all 65536 length values in lower case x bodies {0, n-4, n-5, n-3} "
    "and in upper case x bodies {n-4, n-5}, all 4-byte prefixes over a 14-symbol alphabet of hex and "
    "int()-lenient characters, mutated valid streams.  git is a peer for emitted request streams (upload-pack v2 "
    "ls-refs under GIT_TRACE_PACKET) and the producer of ref advertisements.  Non-trivial = round trip with >= 3 "
    "frames and a delivered chunk boundary strictly inside a length prefix and strictly inside a body; decoder input "
    "whose prefix is four hex digits with a body that does not match it; distinct by (part, payload lengths/"
    "textures, chunk plan)."
)
ASSUMPTIONS = [
    "the reference framer is my transcription of protocol-common.txt / protocol-v2.txt (self-tested on the documented "
    "examples and against git 2.39.5 upload-pack in every run)",
    "Protocol(read=...) is given a read(n) that returns exactly n bytes unless EOF (file.read / makefile); short reads "
    "are fed only through ReceivableProtocol(recv=...) and PktLineParser.parse",
    "a sender may not exceed 65520 bytes per pkt-line (the documented MUST NOT), although git 2.39.5 as a receiver "
    "tolerates up to 65523; a receiver may accept or refuse such frames and 0002",
    "capability tokens are bytes without NUL, LF and ASCII white space; ref names are valid per git check-ref-format",
    "a watchdog (20-120 s per batch) only detects non-termination; it is not used as a correctness signal",
]

DELIM = R.DELIM


def _dw():
    import dulwich.protocol as P
    from dulwich.errors import GitProtocolError, HangupException

    return P, GitProtocolError, HangupException


# ---------------------------------------------------------------------------
# item specs <-> payloads.  spec: ("F",) flush | ("D",) delim | ("P", n, fill, seed)


def materialise(spec):
    if spec[0] == "F":
        return None
    if spec[0] == "D":
        return DELIM
    if spec[0] == "B":  # literal bytes
        return spec[1]
    return R.fill(spec[1], spec[2], spec[3])


def spec_key(spec):
    if spec[0] == "P":
        return ("P", spec[1], spec[2])
    if spec[0] == "B":
        return ("B", spec[1])
    return spec[0]


# ---------------------------------------------------------------------------
# writers


def _noread(n):
    raise HarnessError("a writer-only Protocol tried to read")


def emit(writer, seq, bufsize=65515):
    """Encode ``seq`` with one of dulwich's writers.  Returns (bytes written, exception or None)."""
    P, _, _ = _dw()
    buf = []
    try:
        if writer == "pkt_line":
            for x in seq:
                buf.append(b"0001" if x == DELIM else P.pkt_line(x))
        elif writer == "pkt_seq":
            buf.append(P.pkt_seq(*seq[:-1]))
        elif writer == "write_pkt_line":
            proto = P.Protocol(_noread, buf.append)
            for x in seq:
                if x == DELIM:
                    proto.write(b"0001")  # what dulwich.client does for a delim-pkt
                else:
                    proto.write_pkt_line(x)
        elif writer == "buffered":
            w = P.BufferedPktLineWriter(buf.append, bufsize=bufsize)
            for x in seq:
                if x is None or x == DELIM:
                    w.flush()
                    buf.append(b"0000" if x is None else b"0001")
                else:
                    w.write(x)
            w.flush()
        else:
            raise HarnessError(f"unknown writer {writer!r}")
    except HarnessError:
        raise
    except Exception as e:  # a refusal is an outcome the oracle judges
        return b"".join(buf), e
    return b"".join(buf), None


def writers_for(seq):
    ws = ["pkt_line", "write_pkt_line", "buffered"]
    if seq and seq[-1] is None and DELIM not in seq:
        ws.append("pkt_seq")
    return ws


def judge_emit(ctx, check, case, writer, seq, emitted, exc):
    """Oracle 2: what was written is well-formed; fitting payloads are never refused or altered."""
    events, terminal = R.parse(emitted)
    over = [len(x) for x in seq if isinstance(x, (bytes, bytearray)) and len(x) > R.MAX_PAYLOAD]
    site = "pkt_line"  # pkt_seq, write_pkt_line and BufferedPktLineWriter all frame through pkt_line
    if not over:
        if exc is not None:
            ctx.fail(f"C19:{site}:refused-fitting-payload:{type(exc).__name__}",
                     f"{writer} raised {type(exc).__name__}({exc}) for payload lengths "
                     f"{[len(x) if isinstance(x, bytes) else x for x in seq]}", check, case)
            return False
        if not R.strictly_valid(events, terminal):
            ctx.fail(f"C19:{site}:malformed-stream-for-fitting-payloads:{terminal[0]}",
                     f"{writer} emitted a stream the reference framer rejects: {terminal!r} after {len(events)} frames",
                     check, case)
            return False
        got = R.items_of(events)
        if got != list(seq):
            n = next((i for i, (a, b) in enumerate(zip(got, seq)) if a != b), min(len(got), len(seq)))
            ctx.fail(f"C19:{site}:emitted-frames-differ",
                     f"{writer}: reference framer reads {len(got)} frames, {len(seq)} were written; first difference at "
                     f"frame {n}", check, case)
            return False
        return True
    # at least one payload does not fit a frame: split or refuse, never a malformed frame
    if R.strictly_valid(events, terminal):
        return True
    if exc is not None:
        # refused: what reached the transport before (a buffering writer may stop mid-frame) must be the beginning
        # of the correct encoding of the items that precede the refused one
        k = next(i for i, x in enumerate(seq) if isinstance(x, (bytes, bytearray)) and len(x) > R.MAX_PAYLOAD)
        if R.encode_seq(seq[:k]).startswith(emitted):
            return True
    first = over[0]
    if first + 4 > 0xFFFF:
        kind = "length-needs-5-hex-digits"
        what = f"a {first} byte payload was framed with a length of more than four hex digits ({first + 4:x})"
    else:
        kind = "length-over-65520"
        what = f"a {first} byte payload was framed as one pkt-line of length {first + 4} (> 65520)"
    ctx.fail(f"C19:{site}:oversize-payload-emitted:{kind}",
             f"{writer}: {what} instead of being split or refused; the reference framer sees {terminal!r} / "
             f"{[e.kind for e in events][:6]}", check, case)
    return False


# ---------------------------------------------------------------------------
# check "roundtrip": sequence -> writers -> reference framer -> readers under a chunk plan


def _run_decoders(ctx, check, case, stream, events, terminal, plan, decoders, eof_mask=0, unread_mask=0, rbufsize=65536):
    """Run the named decoders over ``stream``; returns the cut offsets the chunked transport produced."""
    P, GPE, _ = _dw()
    sizes, cycle, short_by = plan
    cuts = []
    base = {}
    # the plain loops first: the driving loops are judged relative to them
    for dec in sorted(decoders, key=lambda d: d not in ("proto", "rproto")):
        if dec in ("proto", "pseq", "peof"):
            tr = J.ExactReader(stream)
            proto = P.Protocol(tr.read, None)
            if dec == "proto":
                frames, term = J.dec_readloop(proto, stream)
            elif dec == "pseq":
                frames, term = J.dec_seq(proto, stream)
            else:
                frames, term = J.dec_eofloop(proto, stream, eof_mask, unread_mask)
        elif dec == "parser":
            tr = J.Wire(stream, sizes, cycle, short_by)
            frames, term = J.dec_parser(P, tr)
        else:
            tr = J.Wire(stream, sizes, cycle, short_by)
            proto = P.ReceivableProtocol(tr.recv, None, rbufsize=rbufsize)
            if dec == "rproto":
                frames, term = J.dec_readloop(proto, stream)
            elif dec == "seq":
                frames, term = J.dec_seq(proto, stream)
            elif dec == "eofloop":
                frames, term = J.dec_eofloop(proto, stream, eof_mask, unread_mask)
            else:
                raise HarnessError(f"unknown decoder {dec!r}")
            if dec == "rproto":
                cuts = tr.cuts
        if dec in ("proto", "rproto"):
            base[dec] = J.exception_kind(events, terminal, frames, term)
        J.judge(ctx, check, case, dec, stream, events, terminal, frames, term, tr, GPE,
                reader_kind=base.get("proto" if dec in ("pseq", "peof") else "rproto"))
    return cuts


ALL_DECODERS = ("proto", "pseq", "peof", "rproto", "seq", "eofloop", "parser")


def exec_roundtrip(ctx, case, check="roundtrip"):
    specs = [tuple(s) for s in case["items"]]
    seq = [materialise(s) for s in specs]
    plan = (case["sizes"], case["cycle"], case.get("short_by", 0))
    ref = R.encode_seq(seq)
    streams = set()
    for w in writers_for(seq):
        emitted, exc = emit(w, seq, case.get("bufsize", 65515))
        if judge_emit(ctx, check, case, w, seq, emitted, exc):
            streams.add(emitted)
    if streams - {ref}:
        # the reference framer read the right frames from it, so only the spelling differs (e.g. hex case)
        ctx.label("emitted-spelling-differs-from-reference-encoder")
    streams.add(ref)
    cuts = []
    events = terminal = None
    for stream in sorted(streams):
        events, terminal = R.parse(stream)
        with J.watchdog(60):
            c = _run_decoders(ctx, check, case, stream, events, terminal, plan, case.get("decoders", ALL_DECODERS),
                              case.get("eof_mask", 0), case.get("unread_mask", 0), case.get("rbufsize", 65536))
        cuts = cuts or c
    return seq, events, cuts


def _labels_for(seq, events, cuts):
    in_prefix, in_body = J.cut_classes(events, cuts)
    labels = []
    if len(seq) >= 3:
        labels.append("frames>=3")
    if in_prefix:
        labels.append("cut-in-length-prefix")
    if in_body:
        labels.append("cut-in-body")
    if any(x == b"" for x in seq):
        labels.append("has-empty-payload")
    if DELIM in seq:
        labels.append("has-delim")
    if any(isinstance(x, bytes) and len(x) >= 65515 for x in seq):
        labels.append("has-max-size-payload")
    nt = len(seq) >= 3 and in_prefix and in_body
    return nt, labels


def resolve_plan(chspec, events, total):
    """Turn a drawn chunking description into (sizes, cycle, short_by) for this stream."""
    mode = chspec[0]
    starts = [e.start for e in events]
    if mode == "cycle":
        _, pattern, short_by = chspec
        if total <= 3000 or min(pattern) >= 512:
            return [], list(pattern), short_by
        return J.window_plan(starts, total, pattern), [65536], short_by
    if mode == "cuts":
        _, descr, cycle, short_by = chspec
        cuts = []
        for idx, d in descr:
            if not events:
                break
            e = events[idx % len(events)]
            if isinstance(d, tuple):
                cuts.append(e.start + 4 + (e.end - e.start - 4) * d[1] // 1000)
            else:
                cuts.append(e.start + d)
        return J.sizes_from_cuts(cuts, total), list(cycle), short_by
    raise HarnessError(f"unknown chunk mode {mode!r}")


def _st():
    from hypothesis import strategies as st

    return st


def _item_strategy(allow_big=True):
    st = _st()
    fills = st.sampled_from(R.FILLS)
    seed = st.integers(0, 11)
    small = st.tuples(st.just("P"), st.integers(1, 40), fills, seed)
    tiny = st.tuples(st.just("P"), st.sampled_from([1, 1, 2, 3, 4, 5]), fills, seed)
    medium = st.tuples(st.just("P"), st.sampled_from([255, 256, 996, 1000, 4092, 4096, 16380, 32768]), fills, seed)
    big = st.tuples(st.just("P"), st.sampled_from([65511, 65512, 65514, 65515, 65516, 65516]), fills, seed)
    empty = st.just(("P", 0, "x", 0))
    opts = [st.just(("F",)), st.just(("F",)), st.just(("D",)), empty, tiny, tiny, small, small, medium]
    if allow_big:
        opts.append(big)
    return st.one_of(*opts)


def _chunk_strategy():
    st = _st()
    sz = st.sampled_from([1, 1, 2, 3, 4, 5, 6, 7, 8, 9, 13, 64, 1000, 4096, 65515, 65516, 65520, 65536])
    cyc = st.tuples(st.just("cycle"), st.lists(sz, min_size=1, max_size=4), st.sampled_from([0, 0, 1]))
    delta = st.one_of(st.integers(-3, 9), st.tuples(st.just("frac"), st.integers(0, 1000)))
    cuts = st.tuples(
        st.just("cuts"),
        st.lists(st.tuples(st.integers(0, 11), delta), min_size=1, max_size=12),
        st.sampled_from([[J.BIG], [65536], [4096], [5], [1, 65536]]),
        st.sampled_from([0, 0, 1]),
    )
    return st.one_of(cyc, cyc, cuts)


def _roundtrip_strategy():
    st = _st()
    items = st.lists(_item_strategy(), min_size=0, max_size=12)
    return st.tuples(
        items,
        _chunk_strategy(),
        st.sampled_from([1, 4, 5, 16, 100, 65515, 65515]),  # BufferedPktLineWriter bufsize
        st.integers(0, 0xFFFF),
        st.integers(0, 0xFFFF),
        st.sampled_from([1, 3, 4, 5, 64, 65536, 65536]),  # ReceivableProtocol rbufsize
    )


def _roundtrip_test(ctx, value):
    items, chspec, bufsize, eof_mask, unread_mask, rbufsize = value
    # keep at most three maximum-size payloads per sequence: cost, not coverage
    nbig = 0
    specs = []
    for s in items:
        if s[0] == "P" and s[1] > 60000:
            nbig += 1
            if nbig > 3:
                s = ("P", 7, s[2], s[3])
        specs.append(s)
    seq = [materialise(s) for s in specs]
    ref = R.encode_seq(seq)
    events, _ = R.parse(ref)
    sizes, cycle, short_by = resolve_plan(chspec, events, len(ref))
    case = dict(items=specs, sizes=sizes, cycle=cycle, short_by=short_by, bufsize=bufsize, eof_mask=eof_mask,
                unread_mask=unread_mask, rbufsize=rbufsize)
    seq, events, cuts = exec_roundtrip(ctx, case)
    nt, labels = _labels_for(seq, events, cuts)
    key = ("rt", tuple(spec_key(s) for s in specs), tuple(sizes[:64]), tuple(cycle), short_by)
    ctx.case(key, nontrivial=nt, labels=["roundtrip"] + labels + (["roundtrip-nontrivial"] if nt else []),
             sample=dict(payload_lengths=[len(x) if isinstance(x, bytes) else x for x in seq], chunk_sizes=sizes[:12],
                         then_cycle=cycle, short_by=short_by) if nt else None)


def _part_roundtrip(ctx, n):
    run_hypothesis(ctx, _roundtrip_strategy(), _roundtrip_test, max_examples=n)


# ---------------------------------------------------------------------------
# check "compositions": every partition of every short stream


def short_sequences(maxlen=14):
    """All item sequences whose encoding is at most ``maxlen`` bytes.  Payload of
    length k is one fixed texture per k (length 4 is b"0000": looks like a flush)."""
    pay = {0: b"", 1: b"a", 2: b"0\n", 3: b"abc", 4: b"0000", 5: b"0005a", 6: b"fedcba", 7: b"0006a\n1",
           8: b"00000004", 9: b"123456789", 10: b"0123456789"}
    for k in range(11, maxlen - 3):
        pay[k] = R.fill(k, "pkt", k)
    atoms = [(4, ("F",)), (4, ("D",)), (4, ("B", b""))] + [(4 + k, ("B", pay[k])) for k in range(1, maxlen - 3)]
    out = []

    def rec(prefix, used):
        out.append(list(prefix))
        for ln, spec in atoms:
            if used + ln <= maxlen:
                prefix.append(spec)
                rec(prefix, used + ln)
                prefix.pop()

    rec([], 0)
    return out


def exec_compositions(ctx, case, check="compositions", count=True):
    """case: items + mask; bit i of mask set = chunk boundary after byte i+1."""
    specs = [tuple(s) for s in case["items"]]
    seq = [materialise(s) for s in specs]
    stream = R.encode_seq(seq)
    events, terminal = R.parse(stream)
    total = len(stream)
    masks = [case["mask"]] if case.get("mask") is not None else range(1 << max(total - 1, 0))
    P, GPE, _ = _dw()
    nt_count = 0
    n = 0
    for mask in masks:
        cuts = [i + 1 for i in range(total - 1) if (mask >> i) & 1]
        sizes = J.sizes_from_cuts(cuts, total)
        c = dict(items=specs, mask=mask)
        base_kind = None
        for dec in ("rproto", "parser", "seq"):
            if dec == "seq" and (mask % 4):  # a quarter of the partitions also through read_pkt_seq
                continue
            tr = J.Wire(stream, sizes, [J.BIG])
            if dec == "parser":
                frames, term = J.dec_parser(P, tr)
            else:
                proto = P.ReceivableProtocol(tr.recv, None)
                frames, term = (J.dec_readloop if dec == "rproto" else J.dec_seq)(proto, stream)
            if dec == "rproto":
                base_kind = J.exception_kind(events, terminal, frames, term)
            J.judge(ctx, check, c, dec, stream, events, terminal, frames, term, tr, GPE, reader_kind=base_kind)
        n += 1
        if len(seq) >= 3:
            ip, ib = J.cut_classes(events, cuts)
            if ip and ib:
                nt_count += 1
    if count:
        ctx.case(None, nontrivial=False, n=n - nt_count, labels=("composition",))
        if nt_count:
            ctx.case(None, nontrivial=True, n=nt_count, labels=("composition", "composition-nontrivial"))
    return n


def _part_compositions(ctx, item):
    seqs, maxlen = item
    for specs in seqs:
        with J.watchdog(600):  # per stream (normally well under a second for 14 bytes)
            exec_compositions(ctx, dict(items=specs, mask=None))
    ctx.label("short-streams-all-partitions", n=len(seqs))


# ---------------------------------------------------------------------------
# check "oversize": payloads that do not fit one frame (writers only)

OVERSIZE = [65517, 65518, 65519, 65520, 65531, 65532, 65536, 70000, 200000]


def exec_oversize(ctx, case, check="oversize"):
    specs = [tuple(s) for s in case["items"]]
    seq = [materialise(s) for s in specs]
    for w in writers_for(seq):
        emitted, exc = emit(w, seq, case.get("bufsize", 65515))
        judge_emit(ctx, check, case, w, seq, emitted, exc)
        ctx.label("oversize-refused" if exc is not None else "oversize-not-refused")
    return seq


def _oversize_strategy():
    st = _st()
    big = st.tuples(st.just("P"), st.sampled_from(OVERSIZE), st.sampled_from(R.FILLS), st.integers(0, 11))
    around = st.lists(_item_strategy(allow_big=False), max_size=3)
    return st.tuples(around, big, around, st.sampled_from([5, 100, 65515]))


def _oversize_test(ctx, value):
    pre, big, post, bufsize = value
    specs = list(pre) + [big] + list(post)
    case = dict(items=specs, bufsize=bufsize)
    exec_oversize(ctx, case)
    ctx.case(("over", tuple(spec_key(s) for s in specs)), nontrivial=True,
             labels=("oversize", "oversize-5-digit" if big[1] + 4 > 0xFFFF else "oversize-4-digit"))


def _part_oversize(ctx, n):
    if ctx.shard % 16 == 0:
        # received frames longer than a writer may send (payload 65517..65531, length prefix up to ffff) at every
        # position of the peek/unread loops: whatever a reader accepts it must be able to put back and read again
        for size in (65517, 65520, 65530, 65531):
            for pos in (0, 1, 2):
                frames = [b"0005a", b"0006bc"][:pos] + [b"%04x" % (size + 4) + R.fill(size, "zero" if "zero" in R.FILLS else R.FILLS[0], size)] + [b"0005z", b"0000"]
                stream = b"".join(frames)
                for unread_mask, eof_mask in ((0xFFFF, 0x5555), (0x5555, 0xFFFF), (0, 0), (1 << pos, 0)):
                    case = dict(stream=stream, sizes=[], cycle=[J.BIG], short_by=0, eof_mask=eof_mask, unread_mask=unread_mask)
                    exec_decode(ctx, case)
                    ctx.case(("big-recv", size, pos, unread_mask, eof_mask), nontrivial=True, labels=("decode-big-received-frame",))
    run_hypothesis(ctx, _oversize_strategy(), _oversize_test, max_examples=n)


# ---------------------------------------------------------------------------
# check "sideband": (channel, blob) list -> write_sideband -> reference framer and dulwich demultiplexer


def _merge(pairs):
    out = []
    for ch, d in pairs:
        if not d:
            continue
        if out and out[-1][0] == ch:
            out[-1][1] += d
        else:
            out.append([ch, bytearray(d)])
    return [(ch, bytes(d)) for ch, d in out]


def _demux():
    try:
        from dulwich.client import _read_side_band64k_data as f

        return f
    except ImportError:  # private helper gone after a refactoring: same two lines here
        return lambda seq: ((pkt[0], pkt[1:]) for pkt in seq)


def _first_diff(a, b):
    """Where two merged (channel, data) lists differ, as a short root-cause word."""
    if [c for c, _ in a] != [c for c, _ in b]:
        return "channel-order-differs"
    for (_, x), (_, y) in zip(a, b):
        if len(x) != len(y):
            return "data-length-differs"
        if x != y:
            return "data-bytes-differ"
    return "equal"


def exec_sideband(ctx, case, check="sideband"):
    P, GPE, _ = _dw()
    pairs = [(ch, materialise(tuple(spec))) for ch, spec in case["blobs"]]
    buf = []
    proto = P.Protocol(_noread, buf.append)
    try:
        for ch, blob in pairs:
            proto.write_sideband(ch, blob)
    except Exception as e:
        ctx.fail(f"C19:write_sideband:{type(e).__name__}", f"write_sideband raised {type(e).__name__}({e}) for blob lengths "
                 f"{[len(b) for _, b in pairs]}", check, case)
        return None, None, []
    emitted = b"".join(buf)
    events, terminal = R.parse(emitted)
    want = _merge(pairs)
    if not R.strictly_valid(events, terminal):
        worst = max((e.end - e.start for e in events), default=0)
        kind = "frame-over-65520" if any(e.kind == "big" for e in events) else f"malformed-{terminal[0]}"
        ctx.fail(f"C19:write_sideband:{kind}", f"write_sideband emitted a stream the reference framer rejects "
                 f"({terminal!r}, longest frame {worst}) for blob lengths {[len(b) for _, b in pairs]}", check, case)
        return None, None, []
    if any(e.kind != "data" for e in events):
        ctx.fail("C19:write_sideband:non-data-frame", f"write_sideband emitted {[e.kind for e in events if e.kind != 'data'][:3]} "
                 f"frames inside a side-band stream", check, case)
        return None, None, []
    got = _merge((e.payload[0], e.payload[1:]) for e in events)
    if got != want:
        ctx.fail(f"C19:write_sideband:{_first_diff(got, want)}", f"per-channel data read by the reference framer differs from "
                 f"what was written (blob lengths {[len(b) for _, b in pairs]})", check, case)
        return None, None, []
    # decode with dulwich under the chunk plan
    stream = emitted + b"0000"
    events, terminal = R.parse(stream)
    sizes, cycle, short_by = case["sizes"], case["cycle"], case.get("short_by", 0)
    tr = J.Wire(stream, sizes, cycle, short_by)
    rp = P.ReceivableProtocol(tr.recv, None)
    demux = _demux()
    try:
        with J.watchdog(60):
            dec = _merge(demux(rp.read_pkt_seq()))
    except Exception as e:
        ctx.fail(f"C19:sideband-decode:{type(e).__name__}", f"demultiplexing raised {type(e).__name__}({e})", check, case)
        return stream, events, tr.cuts
    if dec != want:
        ctx.fail(f"C19:sideband-decode:{_first_diff(dec, want)}", f"demultiplexed data differs from what was written "
                 f"(blob lengths {[len(b) for _, b in pairs]}, chunk sizes {sizes[:8]}.. then {cycle})", check, case)
    return stream, events, tr.cuts


def _sideband_strategy():
    st = _st()
    ln = st.one_of(
        st.sampled_from([0, 1, 2, 100, 65514, 65515, 65516, 65519, 65520, 65521, 131029, 131030, 131031, 196545, 300000]),
        st.integers(1, 3000),
    )
    blob = st.tuples(st.sampled_from([1, 1, 2, 3]), st.tuples(st.just("P"), ln, st.sampled_from(R.FILLS), st.integers(0, 11)))
    return st.tuples(st.lists(blob, min_size=1, max_size=5), _chunk_strategy())


def _sideband_test(ctx, value):
    blobs, chspec = value
    # bound the total volume (cost only)
    total = 0
    kept = []
    for ch, spec in blobs:
        if total + spec[1] > 700000:
            spec = ("P", spec[1] % 997, spec[2], spec[3])
        total += spec[1]
        kept.append((ch, spec))
    # the plan needs the frame starts: take them from the reference encoding of the expected split
    ref = bytearray()
    for ch, spec in kept:
        b = materialise(spec)
        for i in range(0, len(b), R.MAX_SIDEBAND_DATA):
            ref += R.encode(bytes([ch]) + b[i : i + R.MAX_SIDEBAND_DATA])
    ref += b"0000"
    ev, _ = R.parse(bytes(ref))
    sizes, cycle, short_by = resolve_plan(chspec, ev, len(ref))
    case = dict(blobs=kept, sizes=sizes, cycle=cycle, short_by=short_by)
    stream, events, cuts = exec_sideband(ctx, case)
    nt = False
    labels = ["sideband"]
    if events is not None:
        ip, ib = J.cut_classes(events, cuts)
        nt = len(events) >= 3 and ip and ib
        if any(spec[1] > R.MAX_SIDEBAND_DATA for _, spec in kept):
            labels.append("sideband-blob-split-over-frames")
        if len({ch for ch, _ in kept}) > 1:
            labels.append("sideband-multi-channel")
    ctx.case(("sb", tuple((ch, spec_key(s)) for ch, s in kept), tuple(sizes[:64]), tuple(cycle), short_by), nontrivial=nt,
             labels=labels, sample=dict(blobs=[(ch, s[1]) for ch, s in kept], chunk_sizes=sizes[:10], then_cycle=cycle) if nt else None)


def _part_sideband(ctx, n):
    run_hypothesis(ctx, _sideband_strategy(), _sideband_test, max_examples=n)


# ---------------------------------------------------------------------------
# check "nested": report-status path: BufferedPktLineWriter -> write_sideband(1) ... demux -> PktLineParser


def exec_nested(ctx, case, check="nested"):
    P, GPE, _ = _dw()
    specs = [tuple(s) for s in case["items"]]
    inner = [materialise(s) for s in specs]  # bytes or None (flush)
    buf = []
    proto = P.Protocol(_noread, buf.append)
    try:
        w = P.BufferedPktLineWriter(lambda d: proto.write_sideband(1, d), bufsize=case["bufsize"])
        for i, x in enumerate(inner):
            if x is None:
                w.flush()
                proto.write_sideband(1, b"0000")
            else:
                w.write(x)
            if case["progress_every"] and i % case["progress_every"] == 0:
                proto.write_sideband(2, b"progress %d\r" % i)
        w.flush()
        proto.write_pkt_line(None)
    except Exception as e:
        ctx.fail(f"C19:nested-writer:{type(e).__name__}", f"writer side raised {type(e).__name__}({e})", check, case)
        return None, None, []
    stream = b"".join(buf)
    events, terminal = R.parse(stream)
    if not R.strictly_valid(events, terminal):
        ctx.fail(f"C19:nested-writer:malformed-{terminal[0]}", f"outer stream rejected by the reference framer: {terminal!r}", check, case)
        return None, None, []
    # reference decode of both layers
    inner_bytes = b"".join(e.payload[1:] for e in events if e.kind == "data" and e.payload[:1] == b"\x01")
    iev, iterm = R.parse(inner_bytes)
    if not R.strictly_valid(iev, iterm) or R.items_of(iev) != inner:
        ctx.fail("C19:nested-writer:inner-frames-differ", f"channel 1 carries {len(iev)} frames ({iterm!r}), {len(inner)} were "
                 f"written (BufferedPktLineWriter bufsize {case['bufsize']})", check, case)
        return None, None, []
    tr = J.Wire(stream, case["sizes"], case["cycle"], case.get("short_by", 0))
    rp = P.ReceivableProtocol(tr.recv, None)
    got = []
    parser = P.PktLineParser(got.append)
    try:
        with J.watchdog(60):
            for ch, data in _demux()(rp.read_pkt_seq()):
                if ch == 1:
                    parser.parse(data)
        tail = parser.get_tail()
    except Exception as e:
        ctx.fail(f"C19:nested-decode:{type(e).__name__}", f"client side raised {type(e).__name__}({e})", check, case)
        return stream, events, tr.cuts
    if got != inner or tail != b"":
        kind = "tail-not-empty" if got == inner else ("frame-count-differs" if len(got) != len(inner) else "frames-differ")
        ctx.fail(f"C19:nested-decode:{kind}", f"PktLineParser behind the demultiplexer returned {len(got)} frames and tail "
                 f"{tail[:20]!r}; {len(inner)} frames were written", check, case)
    return stream, events, tr.cuts


def _nested_strategy():
    st = _st()
    line = st.one_of(
        st.just(("B", b"unpack ok\n")), st.just(("B", b"ok refs/heads/master\n")), st.just(("B", b"ng refs/heads/x non-fast-forward\n")),
        st.tuples(st.just("P"), st.sampled_from([1, 2, 5, 40, 200, 996, 4000, 65000, 65511, 65516]), st.sampled_from(R.FILLS), st.integers(0, 11)),
        st.just(("F",)),
    )
    return st.tuples(st.lists(line, min_size=1, max_size=10), st.sampled_from([1, 4, 5, 6, 16, 100, 1000, 65515, 65515, 65520, 70000]),
                     st.sampled_from([0, 0, 1, 2]), _chunk_strategy())


def _nested_test(ctx, value):
    items, bufsize, progress_every, chspec = value
    case = dict(items=list(items), bufsize=bufsize, progress_every=progress_every, sizes=[], cycle=[J.BIG], short_by=0)
    # a first pass without chunking gives the frame starts for the plan
    P, _, _ = _dw()
    total_len = sum(s[1] if s[0] == "P" else len(s[1]) if s[0] == "B" else 0 for s in items)
    if total_len > 400000:
        items = [s for s in items if not (s[0] == "P" and s[1] > 60000)][:10] or [("B", b"unpack ok\n")]
        case["items"] = list(items)
    stream, events, _ = exec_nested(ctx, case)
    if stream is None:
        ctx.case(("nested-fail", repr(items), bufsize), nontrivial=False, labels=("nested",))
        return
    sizes, cycle, short_by = resolve_plan(chspec, events, len(stream))
    case.update(sizes=sizes, cycle=cycle, short_by=short_by)
    stream, events, cuts = exec_nested(ctx, case)
    ip, ib = J.cut_classes(events or [], cuts)
    nt = events is not None and len(events) >= 3 and ip and ib
    ctx.case(("nested", tuple(spec_key(tuple(s)) for s in items), bufsize, progress_every, tuple(sizes[:64]), tuple(cycle)),
             nontrivial=nt, labels=("nested-buffered-sideband-parser",))


def _part_nested(ctx, n):
    run_hypothesis(ctx, _nested_strategy(), _nested_test, max_examples=n)


# ---------------------------------------------------------------------------
# check "decode": arbitrary bytes into every decoder (oracle 3 + agreement with the reference framer)


def exec_decode(ctx, case, check="decode"):
    stream = case["stream"]
    plan = (case.get("sizes", []), case.get("cycle", [J.BIG]), case.get("short_by", 0))
    events, terminal = R.parse(stream)
    with J.watchdog(60):
        cuts = _run_decoders(ctx, check, case, stream, events, terminal, plan, case.get("decoders", ALL_DECODERS),
                             case.get("eof_mask", 0x5555), case.get("unread_mask", 0x0F0F))
    return events, terminal, cuts


def _prefix_bodies(v):
    return sorted({0, max(v - 4, 0), max(v - 5, 0), max(v - 3, 0)} | ({1} if v < 4 else set()))


def _prefix_block(ctx, lo, hi):
    P, GPE, _ = _dw()
    n_nt = n_tr = 0
    for v in range(lo, hi):
        lower, upper = b"%04x" % v, b"%04X" % v
        for pre in ((lower, upper) if upper != lower else (lower,)):
            # upper-case spelling: matching body and one-short body only (cost)
            for blen in (_prefix_bodies(v) if pre is lower else sorted({max(v - 4, 0), max(v - 5, 0)})):
                stream = pre + b"x" * blen
                events, terminal = R.parse(stream)
                case = dict(stream=stream) if len(stream) < 64 else dict(prefix=pre, body_len=blen)
                for dec in ("proto", "rproto", "parser"):
                    if dec == "proto":
                        tr = J.ExactReader(stream)
                        frames, term = J.dec_readloop(P.Protocol(tr.read, None), stream)
                    elif dec == "rproto":
                        tr = J.Wire(stream, (), (J.BIG,))
                        frames, term = J.dec_readloop(P.ReceivableProtocol(tr.recv, None), stream)
                    else:
                        tr = J.Wire(stream, (), (J.BIG,))
                        frames, term = J.dec_parser(P, tr)
                    J.judge(ctx, "prefix", case, dec, stream, events, terminal, frames, term, tr, GPE)
                if v >= 4 and blen != v - 4:
                    n_nt += 1
                else:
                    n_tr += 1
    return n_nt, n_tr


def _part_prefixes(ctx, item):
    """All 65536 length values: lower case x body lengths {0, n-4, n-5, n-3}, upper case x {n-4, n-5}."""
    n_nt = n_tr = 0
    for lo, hi in item:
        with J.watchdog(600):  # per block of 256 length values (normally a fraction of a second)
            a, b = _prefix_block(ctx, lo, hi)
        n_nt += a
        n_tr += b
    ctx.case(None, nontrivial=True, n=n_nt, labels=("hex-prefix-exhaustive", "hex-prefix-body-mismatch"))
    ctx.case(None, nontrivial=False, n=n_tr, labels=("hex-prefix-exhaustive",))


def exec_prefix(ctx, case):
    if "stream" not in case:
        case = dict(case, stream=case["prefix"] + b"x" * case["body_len"])
    exec_decode(ctx, dict(stream=case["stream"], decoders=("proto", "rproto", "parser")), check="prefix")


PREFIX_ALPHABET = [b"0", b"9", b"a", b"f", b"A", b"F", b"+", b"-", b"_", b"x", b" ", b"\n", b"\0", b"g"]


def _lenient_len(pre):
    try:
        return int(pre, 16)
    except ValueError:
        return None


def _part_alphabet(ctx, item):
    """All 4-byte prefixes over a 14-symbol alphabet (what int(x, 16) tolerates but git does not)."""
    nshards, shard = item
    P, GPE, _ = _dw()
    n_nt = n_tr = 0
    with J.watchdog(900):
        for i, tup in enumerate(itertools.product(PREFIX_ALPHABET, repeat=4)):
            if i % nshards != shard:
                continue
            pre = b"".join(tup)
            bodies = {b"", b"0000", b"ab0000000004"}
            lv = _lenient_len(pre)
            if lv is not None and 4 < lv <= 5000:
                bodies.add(b"y" * (lv - 4))  # the body a lenient int() reading of the prefix asks for
            for body in sorted(bodies):
                stream = pre + body
                events, terminal = R.parse(stream)
                for dec in ("proto", "rproto", "parser"):
                    if dec == "proto":
                        tr = J.ExactReader(stream)
                        frames, term = J.dec_readloop(P.Protocol(tr.read, None), stream)
                    elif dec == "rproto":
                        tr = J.Wire(stream, (3, 2, 3), (3, 2) if len(stream) <= 64 else (J.BIG,))
                        frames, term = J.dec_readloop(P.ReceivableProtocol(tr.recv, None), stream)
                    else:
                        tr = J.Wire(stream, (3, 2, 3), (3, 2) if len(stream) <= 64 else (J.BIG,))
                        frames, term = J.dec_parser(P, tr)
                    case = dict(stream=stream) if len(stream) < 64 else dict(prefix=pre, body_len=len(body), body_byte=b"y")
                    J.judge(ctx, "alphabet", case, dec, stream, events, terminal, frames, term, tr, GPE)
                if terminal[0] == "bad-prefix" and terminal[1] == 0:
                    n_nt += 1
                else:
                    n_tr += 1
    ctx.case(None, nontrivial=True, n=n_nt, labels=("prefix-alphabet-exhaustive", "non-hex-prefix"))
    ctx.case(None, nontrivial=False, n=n_tr, labels=("prefix-alphabet-exhaustive",))


def exec_alphabet(ctx, case):
    if "stream" not in case:
        case = dict(case, stream=case["prefix"] + case.get("body_byte", b"y") * case["body_len"])
    st = case["stream"]
    exec_decode(ctx, dict(stream=st, decoders=("proto", "rproto", "parser"), sizes=[3, 2, 3], cycle=[3, 2] if len(st) <= 64 else [J.BIG]),
                check="alphabet")


def _mutate(stream, ops):
    """Apply drawn edit operations to a well-formed stream."""
    s = bytearray(stream)
    ev, _ = R.parse(stream)
    starts = [e.start for e in ev] or [0]
    for op in ops:
        kind = op[0]
        at = starts[op[1] % len(starts)]
        if kind == "truncate":
            cut = min(len(s), at + op[2])
            del s[cut:]
        elif kind == "prefix-byte" and at + 4 <= len(s):
            s[at + op[2] % 4] = op[3]
        elif kind == "prefix-special" and at + 4 <= len(s):
            s[at : at + 4] = op[2]
        elif kind == "upper" and at + 4 <= len(s):
            s[at : at + 4] = bytes(s[at : at + 4]).upper()
        elif kind == "insert":
            s[at:at] = op[2]
        elif kind == "flip" and s:
            i = op[2] % len(s)
            s[i] ^= 1 << (op[3] % 8)
    return bytes(s)


def _mutation_strategy():
    st = _st()
    idx = st.integers(0, 11)
    byte = st.sampled_from(list(b"0123456789abcdefABCDEF+-_x \n\0gG"))
    special = st.sampled_from([b"0000", b"0001", b"0002", b"0003", b"0004", b"ffff", b"fff0", b"fff1", b"FFF0", b"000A", b"00Ff", b"-001", b"+004", b"0x04", b" 004", b"4   ", b"1_00"])
    op = st.one_of(
        st.tuples(st.just("truncate"), idx, st.integers(0, 9)),
        st.tuples(st.just("prefix-byte"), idx, st.integers(0, 3), byte),
        st.tuples(st.just("prefix-special"), idx, special),
        st.tuples(st.just("upper"), idx),
        st.tuples(st.just("insert"), idx, st.binary(min_size=1, max_size=6)),
        st.tuples(st.just("flip"), idx, st.integers(0, 1 << 20), st.integers(0, 7)),
    )
    base = st.lists(_item_strategy(allow_big=False), min_size=1, max_size=8)
    raw = st.binary(min_size=0, max_size=40)
    return st.one_of(
        st.tuples(st.just("mut"), base, st.lists(op, min_size=1, max_size=3), _chunk_strategy(), st.integers(0, 0xFFFF), st.integers(0, 0xFFFF)),
        st.tuples(st.just("raw"), raw, st.just([]), _chunk_strategy(), st.integers(0, 0xFFFF), st.integers(0, 0xFFFF)),
    )


def _mutation_test(ctx, value):
    mode, base, ops, chspec, eof_mask, unread_mask = value
    if mode == "mut":
        stream = _mutate(R.encode_seq([materialise(s) for s in base]), ops)
    else:
        stream = base
    events, terminal = R.parse(stream)
    sizes, cycle, short_by = resolve_plan(chspec, events, len(stream))
    case = dict(stream=stream, sizes=sizes, cycle=cycle, short_by=short_by, eof_mask=eof_mask, unread_mask=unread_mask)
    events, terminal, cuts = exec_decode(ctx, case)
    four_hex = len(stream) >= 4 and terminal[0] in ("short-body", "short-prefix", "reserved") or any(e.kind in ("big", "resp-end") for e in events)
    nt = terminal[0] != "eof" and (four_hex or terminal[0] == "bad-prefix")
    ctx.case(("dec", stream, tuple(sizes[:64]), tuple(cycle), short_by), nontrivial=nt,
             labels=("decode-mutated" if mode == "mut" else "decode-raw", f"decode-ends-{terminal[0]}"),
             sample=dict(stream=stream, chunk_sizes=sizes[:10], then_cycle=cycle) if nt else None)


def _part_mutation(ctx, n):
    run_hypothesis(ctx, _mutation_strategy(), _mutation_test, max_examples=n)


# ---------------------------------------------------------------------------
# check "caps" / "refs": capability lists and ref advertisements

CAP_POOL = [b"multi_ack", b"thin-pack", b"side-band", b"side-band-64k", b"ofs-delta", b"shallow", b"deepen-since", b"deepen-not",
            b"deepen-relative", b"no-progress", b"include-tag", b"multi_ack_detailed", b"allow-tip-sha1-in-want",
            b"allow-reachable-sha1-in-want", b"no-done", b"symref=HEAD:refs/heads/x", b"filter", b"object-format=sha1",
            b"object-format=sha256", b"agent=git/2.39.5", b"report-status", b"report-status-v2", b"delete-refs", b"quiet", b"atomic",
            b"push-options", b"session-id=abc-123", b"symref=refs/remotes/origin/HEAD:refs/remotes/origin/main"]

REF_COMPONENT_POOL = [b"master", b"main", b"x", b"a-b", b"A", b"v1.0", b"feature", b"caf\xc3\xa9", b"\xff\xfe", b"a@b", b"we}ird", b"1+1=2",
                      b"semi;colon", b"qu\"ote", b"pa(ren)", b"am&p", b"pi|pe", b"l<t>", b"do$", b"ha#sh", b"per%cent", b"it's", b"ex!", b"co,mma", b"v2{beta}", b"build}", b"{}", b"x}}{", b"rel-{3", b"up}"]


def _caps_strategy():
    st = _st()
    # tokens: any bytes except NUL, LF and ASCII white space (one draw per token keeps generation cheap)
    _bad = bytes([0, 9, 10, 11, 12, 13, 32])
    _tbl = bytes(c if c not in _bad else 0x21 + c for c in range(256))
    token = st.one_of(st.sampled_from(CAP_POOL), st.sampled_from(CAP_POOL), st.binary(min_size=1, max_size=12).map(lambda b: b.translate(_tbl)))
    caps = st.lists(token, min_size=0, max_size=25)
    _refbad = bytes(range(0x21)) + b"~^:?*[\\\x7f./@"  # '{' is only forbidden after '@'; names may end in '{' or '}' 
    _reftbl = bytes(c if c not in _refbad else ord("a") + c % 26 for c in range(256))
    comp = st.one_of(st.sampled_from(REF_COMPONENT_POOL), st.binary(min_size=1, max_size=8).map(lambda b: b.translate(_reftbl)))
    ref = st.lists(comp, min_size=1, max_size=3).map(lambda cs: b"refs/" + b"/".join(cs))
    hexid = st.tuples(st.integers(0, 1 << 30), st.booleans()).map(
        lambda t: (hashlib.sha256 if t[1] else hashlib.sha1)(b"%d" % t[0]).hexdigest().encode() if t[0] else b"0" * (64 if t[1] else 40))
    return st, caps, ref, hexid


def exec_caps(ctx, case, check="caps"):
    """format_ref_line/extract_capabilities, want lines and receive-pack command lines."""
    P, _, _ = _dw()
    ref, sha, caps = case["ref"], case["sha"], list(case["caps"])
    if not caps:
        ctx.label("empty-capability-list(report-only)")
        return
    try:
        got = P.extract_capabilities(P.format_ref_line(ref, sha, caps))
        want = (sha + b" " + ref, caps)
        if (got[0], list(got[1])) != want:
            ctx.fail("C19:extract_capabilities:format_ref_line-roundtrip-differs", f"extract_capabilities(format_ref_line(...)) = "
                     f"{got!r}, expected {want!r}", check, case)
        # the same line as git spells it (protocol-common / pack-protocol: NUL then space-separated list), with and without LF
        for lf in (b"\n", b""):
            got = P.extract_capabilities(sha + b" " + ref + b"\0" + b" ".join(caps) + lf)
            if (got[0], list(got[1])) != want:
                ctx.fail("C19:extract_capabilities:git-spelling-differs", f"extract_capabilities(sha ref NUL caps{' LF' if lf else ''}) = "
                         f"{got!r}, expected {want!r}", check, case)
        # receive-pack command line: old SP new SP ref NUL caps
        text = sha + b" " + sha[::-1] + b" " + ref
        got = P.extract_capabilities(text + b"\0" + b" ".join(caps))
        if (got[0], list(got[1])) != (text, caps):
            ctx.fail("C19:extract_capabilities:command-line-differs", f"extract_capabilities(old new ref NUL caps) = {got!r}", check, case)
        # want line
        for lf in (b"\n", b""):
            got = P.extract_want_line_capabilities(b"want " + sha + b" " + b" ".join(caps) + lf)
            if (got[0], list(got[1])) != (b"want " + sha, caps):
                ctx.fail("C19:extract_want_line_capabilities:roundtrip-differs", f"extract_want_line_capabilities = {got!r}, "
                         f"expected {(b'want ' + sha, caps)!r}", check, case)
        line = b"want " + sha + b"\n"
        got = P.extract_want_line_capabilities(line)
        if got[0].rstrip(b"\n") != b"want " + sha or list(got[1]) != []:
            ctx.fail("C19:extract_want_line_capabilities:bare-want-differs", f"extract_want_line_capabilities({line!r}) = {got!r}", check, case)
    except Violation:
        raise
    except Exception as e:
        ctx.fail(f"C19:capabilities:{type(e).__name__}", f"{type(e).__name__}({e}) for caps {caps!r}", check, case)


def exec_refs(ctx, case, check="refs"):
    """A v0/v1 ref advertisement through a chunked transport into read_pkt_refs_v1."""
    P, GPE, _ = _dw()
    from dulwich.client import read_pkt_refs_v1

    refs = [(r, s) for r, s in case["refs"]]
    caps = list(case["caps"])
    style = case["style"]
    if refs:
        lines_src = refs
    else:
        lines_src = [(b"capabilities^{}", b"0" * len(case.get("zero", b"0" * 40)))]
    lines = []
    for i, (r, s) in enumerate(lines_src):
        if style == "dulwich":
            lines.append(P.format_ref_line(r, s, caps if i == 0 else None))
        else:
            lf = b"\n" if style == "git" else b""
            lines.append(s + b" " + r + (b"\0" + b" ".join(caps) if i == 0 else b"") + lf)
    if style == "dulwich":
        stream = P.pkt_seq(*lines)
        ev, term = R.parse(stream)
        if not R.strictly_valid(ev, term) or R.items_of(ev) != lines + [None]:
            ctx.fail("C19:pkt_seq:advertisement-malformed", f"pkt_seq of {len(lines)} ref lines is not what the reference framer reads back", check, case)
            return None, []
    else:
        stream = R.encode_seq(lines + [None])
    events, _ = R.parse(stream)
    tr = J.Wire(stream, case["sizes"], case["cycle"], case.get("short_by", 0))
    rp = P.ReceivableProtocol(tr.recv, None)
    try:
        with J.watchdog(60):
            got_refs, got_caps = read_pkt_refs_v1(rp.read_pkt_seq())
    except Exception as e:
        ctx.fail(f"C19:read_pkt_refs_v1:{type(e).__name__}", f"read_pkt_refs_v1 raised {type(e).__name__}({e}) on a {style}-style "
                 f"advertisement of {len(refs)} refs, {len(caps)} capabilities", check, case)
        return events, tr.cuts
    want_refs = dict(refs)
    if dict(got_refs) != want_refs:
        missing = [r for r in want_refs if r not in got_refs]
        extra = [r for r in got_refs if r not in want_refs]
        kind = "refs-missing" if missing else ("refs-extra" if extra else "ids-differ")
        if extra == [b"capabilities^{}"] and not missing:
            kind = "capabilities-pseudo-ref-returned-as-ref"
        ctx.fail(f"C19:read_pkt_refs_v1:{kind}", f"{style}-style advertisement: missing {missing[:3]!r}, unexpected {extra[:3]!r}, "
                 f"{sum(1 for r in want_refs if r in got_refs and got_refs[r] != want_refs[r])} ids differ", check, case)
    if set(got_caps) != set(caps):
        ctx.fail("C19:read_pkt_refs_v1:capabilities-differ", f"{style}-style advertisement: capabilities {sorted(got_caps)!r}, "
                 f"expected {sorted(set(caps))!r}", check, case)
    # the next decoding step of the HTTP clients: "<name>^{}" lines become the peeled map, everything else stays
    try:
        reg, peeled = P.split_peeled_refs(dict(want_refs))
    except Exception as e:
        ctx.fail(f"C19:split_peeled_refs:{type(e).__name__}", f"split_peeled_refs raised {type(e).__name__}({e})", check, case)
        return events, tr.cuts
    want_reg = {r: s for r, s in want_refs.items() if not r.endswith(b"^{}")}
    want_peeled = {r[:-3]: s for r, s in want_refs.items() if r.endswith(b"^{}")}
    if dict(reg) != want_reg or dict(peeled) != want_peeled:
        odd = sorted(set(dict(peeled)) ^ set(want_peeled)) + sorted(set(dict(reg)) ^ set(want_reg))
        ctx.fail("C19:split_peeled_refs:advertisement-not-preserved", f"split_peeled_refs of the advertised refs: names {odd[:4]!r} are lost or "
                 f"invented ({len(want_peeled)} peeled lines advertised)", check, case)
    return events, tr.cuts


def _caps_test(ctx, value):
    ref, sha, caps = value
    case = dict(ref=ref, sha=sha, caps=caps)
    exec_caps(ctx, case)
    special = any(c not in CAP_POOL for c in caps)
    ctx.case(("caps", ref, sha, tuple(caps)), nontrivial=len(caps) >= 2, labels=("caps", "caps-generated-token" if special else "caps-pool-only"),
             sample=case if special and len(caps) > 3 else None)


def _refs_test(ctx, value):
    reflist, ids, caps, style, chspec, peel = value
    refs = []
    seen = set()
    for i, r in enumerate(reflist):
        if r in seen:
            continue
        seen.add(r)
        sha = ids[i % len(ids)]
        refs.append((r, sha))
        if peel and i % 3 == 0:
            refs.append((r + b"^{}", ids[(i + 1) % len(ids)]))
    if refs and peel:
        refs.insert(0, (b"HEAD", refs[0][1]))
    idlen = len(ids[0])
    refs = [(r, s if len(s) == idlen else (s * 2)[:idlen]) for r, s in refs]
    caps = caps or [b"agent=git/2.39.5"]  # an advertisement always carries capabilities
    # frame starts for the plan
    lines = [s + b" " + r + b"\n" for r, s in refs] or [b"x" * 60]
    lines[0] = lines[0] + b"\0" + b" ".join(caps)
    ev, _ = R.parse(R.encode_seq(lines + [None]))
    total = ev[-1].end
    sizes, cycle, short_by = resolve_plan(chspec, ev, total + 2)
    case = dict(refs=refs, caps=caps, style=style, sizes=sizes, cycle=cycle, short_by=short_by, zero=b"0" * idlen)
    events, cuts = exec_refs(ctx, case)
    ip, ib = J.cut_classes(events or [], cuts)
    nt = len(refs) >= 2 and ip and ib
    ctx.case(("refs", tuple(refs), tuple(caps), style, tuple(sizes[:64]), tuple(cycle)), nontrivial=nt,
             labels=("ref-advertisement", f"advert-{style}", "advert-empty-repo" if not refs else "advert-refs",
                     "advert-sha256" if idlen == 64 else "advert-sha1"),
             sample=dict(refs=refs[:4], caps=caps[:4], style=style, chunk_sizes=sizes[:8]) if nt and len(refs) > 2 else None)


def _part_caps(ctx, item):
    ncaps, nrefs = item
    st, caps, ref, hexid = _caps_strategy()
    run_hypothesis(ctx, st.tuples(ref, hexid, caps), _caps_test, max_examples=ncaps)
    strat = st.tuples(st.lists(ref, min_size=0, max_size=12), st.lists(hexid, min_size=1, max_size=4), caps,
                      st.sampled_from(["dulwich", "git", "git-nolf"]), _chunk_strategy(), st.booleans())
    run_hypothesis(ctx, strat, _refs_test, max_examples=nrefs)


# ---------------------------------------------------------------------------
# check "pack": pkt-lines, then a raw pack stream read through ReceivableProtocol.read/recv by PackStreamReader/Copier


def _pack_objs(objspecs):
    objs = []
    for t, n, fill, seed, level, basekind in objspecs:
        data = R.fill(n, fill, seed)
        base = None
        if t == 6:
            base = 1 + (seed * 37 + n) % 5000
        elif t == 7:
            base = hashlib.sha1(b"base%d" % seed).digest()
        objs.append((t, data, level, base))
    return objs


def exec_pack(ctx, case, check="pack"):
    import io

    P, GPE, _ = _dw()
    from dulwich.errors import ChecksumMismatch
    from dulwich.pack import PackStreamCopier, PackStreamReader

    pack, entries = R.build_pack(_pack_objs([tuple(o) for o in case["objects"]]))
    corrupt = case.get("corrupt")
    if corrupt is not None:
        i = len(pack) - 20 + corrupt % 20
        pack = pack[:i] + bytes([pack[i] ^ 0x40]) + pack[i + 1 :]
    head_items = [materialise(tuple(s)) for s in case.get("head", [])] + [None]
    head = R.encode_seq(head_items)
    stream = head + pack
    tr = J.Wire(stream, case["sizes"], case["cycle"], case.get("short_by", 0))
    rp = P.ReceivableProtocol(tr.recv, None, rbufsize=case.get("rbufsize", 65536))
    try:
        with J.watchdog(60):
            got_head = []
            while True:
                pkt = rp.read_pkt_line()
                got_head.append(pkt)
                if pkt is None:
                    break
    except Exception as e:
        ctx.fail(f"C19:pack:pkt-lines-before-pack:{type(e).__name__}", f"reading the pkt-lines before the pack raised {type(e).__name__}({e})", check, case)
        return tr.cuts, len(head)
    if got_head != head_items:
        ctx.fail("C19:pack:pkt-lines-before-pack-differ", f"read {len(got_head)} pkt-lines before the pack, {len(head_items)} were sent", check, case)
        return tr.cuts, len(head)
    out = io.BytesIO()
    if case.get("copier"):
        reader = PackStreamCopier(hashlib.sha1, rp.read, rp.recv, out)
        reader._zlib_bufsize = case.get("zlib_bufsize", 65536)
    else:
        reader = PackStreamReader(hashlib.sha1, rp.read, rp.recv, zlib_bufsize=case.get("zlib_bufsize", 65536))
    got = []
    err = None
    try:
        with J.watchdog(60):
            for u in reader.read_objects(compute_crc32=True):
                got.append(dict(offset=u.offset, type=u.pack_type_num, data=b"".join(u.decomp_chunks), base=u.delta_base, crc32=u.crc32))
    except Exception as e:
        err = e
    if corrupt is not None:
        if not isinstance(err, ChecksumMismatch):
            ctx.fail(f"C19:PackStreamReader:corrupt-trailer-{'accepted' if err is None else type(err).__name__}",
                     f"a pack whose trailer byte {corrupt % 20} was flipped gave {err!r} instead of ChecksumMismatch "
                     f"(chunk sizes {case['sizes'][:8]}.. then {case['cycle']})", check, case)
        return tr.cuts, len(head)
    if err is not None:
        ctx.fail(f"C19:PackStreamReader:{type(err).__name__}", f"a well-formed pack stream ({len(entries)} objects, {len(pack)} bytes) "
                 f"raised {type(err).__name__}({err}) under chunk sizes {case['sizes'][:8]}.. then {case['cycle']}", check, case)
        return tr.cuts, len(head)
    if len(got) != len(entries):
        ctx.fail("C19:PackStreamReader:object-count-differs", f"{len(got)} objects read, {len(entries)} written", check, case)
        return tr.cuts, len(head)
    for i, (g, w) in enumerate(zip(got, entries)):
        for field in ("type", "data", "base", "offset", "crc32"):
            if g[field] != w[field]:
                ctx.fail(f"C19:PackStreamReader:object-{field}-differs", f"object {i}: {field} read as "
                         f"{g[field] if field != 'data' else len(g[field])!r}, written as {w[field] if field != 'data' else len(w[field])!r}",
                         check, case)
                return tr.cuts, len(head)
    if case.get("copier") and out.getvalue() != pack:
        o = out.getvalue()
        kind = "shorter" if len(o) < len(pack) else ("longer" if len(o) > len(pack) else "bytes-differ")
        ctx.fail(f"C19:PackStreamCopier:copy-{kind}", f"copied {len(o)} bytes, the pack has {len(pack)}", check, case)
    return tr.cuts, len(head)


def _pack_strategy():
    st = _st()
    obj = st.tuples(
        st.sampled_from([1, 2, 3, 3, 3, 4, 6, 7]),
        st.one_of(st.integers(0, 300), st.sampled_from([0, 1, 19, 20, 21, 4095, 4096, 4097, 65535, 65536, 70000])),
        st.sampled_from(R.FILLS), st.integers(0, 11), st.sampled_from([0, 1, 6, 9]), st.just(0),
    )
    head = st.lists(st.one_of(st.just(("B", b"0" * 40 + b" " + b"1" * 40 + b" refs/heads/master\0report-status\n")),
                              st.tuples(st.just("P"), st.integers(1, 80), st.sampled_from(R.FILLS), st.integers(0, 11))), max_size=3)
    sz = st.sampled_from([1, 1, 2, 3, 5, 7, 11, 12, 13, 19, 20, 21, 64, 1000, 4096, 65536])
    return st.tuples(st.lists(obj, min_size=0, max_size=6), head, st.lists(sz, min_size=1, max_size=4), st.sampled_from([0, 0, 1]),
                     st.sampled_from([1, 2, 7, 20, 64, 4096, 65536]), st.sampled_from([1, 3, 20, 64, 65536, 65536]),
                     st.booleans(), st.one_of(st.none(), st.none(), st.integers(0, 19)), st.integers(0, 40))


def _pack_test(ctx, value):
    objs, head, pattern, short_by, zbuf, rbuf, copier, corrupt, tailwin = value
    objs = [o if (zbuf >= 64 and rbuf >= 20) or o[1] <= 3000 else (o[0], o[1] % 3001, *o[2:]) for o in objs]  # cost only
    total = sum(o[1] for o in objs)
    if total > 150000:
        objs = [o if o[1] < 60000 else (o[0], o[1] % 4099, *o[2:]) for o in objs[1:]] + objs[:1]
    pack, entries = R.build_pack(_pack_objs(objs))
    headlen = len(R.encode_seq([materialise(s) for s in head] + [None]))
    total = headlen + len(pack)
    if total <= 3000 or min(pattern) >= 64:
        sizes, cycle = [], list(pattern)
    else:
        # small chunks around every object start and around the trailer
        starts = [headlen + e["offset"] for e in entries] + [total - 20 - tailwin % 20, total - 20]
        sizes, cycle = J.window_plan(sorted(starts), total, pattern, before=8, after=30), [65536]
    case = dict(objects=objs, head=list(head), sizes=sizes, cycle=cycle, short_by=short_by, zlib_bufsize=zbuf, rbufsize=rbuf,
                copier=copier, corrupt=corrupt)
    cuts, hl = exec_pack(ctx, case)
    in_trailer = any(total - 20 < c < total for c in cuts)
    in_obj = any(any(headlen + e["offset"] < c < headlen + e["offset"] + 6 for c in cuts) for e in entries)
    ctx.case(("pack", tuple(objs), tuple(head), tuple(sizes[:64]), tuple(cycle), short_by, zbuf, rbuf, copier, corrupt),
             nontrivial=len(objs) >= 2 and in_trailer and in_obj,
             labels=("pack-stream", "pack-cut-in-trailer" if in_trailer else "pack-trailer-whole", "pack-corrupt-trailer" if corrupt is not None else "pack-valid",
                     "pack-copier" if copier else "pack-reader"))


def _part_pack(ctx, n):
    run_hypothesis(ctx, _pack_strategy(), _pack_test, max_examples=n)


# ---------------------------------------------------------------------------
# check "rawops": ReceivableProtocol.read / recv against a position model


def exec_rawops(ctx, case, check="rawops"):
    P, _, _ = _dw()
    data = R.fill(case["length"], case["fill"], case["seed"])
    tr = J.Wire(data, case["sizes"], case["cycle"], case.get("short_by", 0))
    rp = P.ReceivableProtocol(tr.recv, None, rbufsize=case["rbufsize"])
    pos = 0
    used = set()
    for i, (op, k) in enumerate(case["ops"]):
        try:
            with J.watchdog(30):
                got = rp.read(k) if op == "read" else rp.recv(k)
        except Exception as e:
            ctx.fail(f"C19:ReceivableProtocol.{op}:{type(e).__name__}", f"op {i} {op}({k}) at offset {pos} raised {type(e).__name__}({e})", check, case)
            return used
        left = len(data) - pos
        if op == "read":
            want = data[pos : pos + k]
            if got != want:
                kind = "short-before-eof" if len(got) < len(want) and data[pos : pos + len(got)] == got else (
                    "too-long" if len(got) > len(want) else "wrong-bytes")
                ctx.fail(f"C19:ReceivableProtocol.read:{kind}", f"op {i} read({k}) at offset {pos} of {len(data)} returned {len(got)} bytes "
                         f"{got[:12]!r}, expected {len(want)} bytes {want[:12]!r} (rbufsize {case['rbufsize']})", check, case)
                return used
        else:
            if left and not got:
                ctx.fail("C19:ReceivableProtocol.recv:empty-before-eof", f"op {i} recv({k}) at offset {pos} of {len(data)} returned nothing", check, case)
                return used
            if len(got) > k or data[pos : pos + len(got)] != got:
                kind = "more-than-asked" if len(got) > k else "wrong-bytes"
                ctx.fail(f"C19:ReceivableProtocol.recv:{kind}", f"op {i} recv({k}) at offset {pos} returned {len(got)} bytes {got[:12]!r}, "
                         f"stream continues {data[pos:pos + 12]!r} (rbufsize {case['rbufsize']})", check, case)
                return used
        if got:
            used.add(op)
        pos += len(got)
    if tr.bad is not None:
        ctx.fail("C19:ReceivableProtocol:nonpositive-read-request", f"asked the transport for {tr.bad!r} bytes", check, case)
    return used


def _rawops_strategy():
    st = _st()
    k = st.sampled_from([1, 1, 2, 3, 4, 5, 7, 12, 16, 20, 100, 4096, 65536])
    op = st.tuples(st.sampled_from(["read", "recv"]), k)
    sz = st.sampled_from([1, 2, 3, 4, 5, 7, 16, 100, 65536])
    return st.tuples(st.integers(0, 400), st.sampled_from(["rnd", "pat"]), st.integers(0, 11), st.lists(op, min_size=1, max_size=30),
                     st.lists(sz, min_size=1, max_size=4), st.sampled_from([0, 0, 1]), st.sampled_from([1, 2, 3, 4, 8, 64, 65536]))


def _rawops_test(ctx, value):
    length, fill, seed, ops, pattern, short_by, rbuf = value
    case = dict(length=length, fill=fill, seed=seed, ops=list(ops), sizes=[], cycle=list(pattern), short_by=short_by, rbufsize=rbuf)
    used = exec_rawops(ctx, case)
    ctx.case(("raw", length, tuple(ops), tuple(pattern), short_by, rbuf), nontrivial=len(used) == 2 and rbuf < 65536,
             labels=("rawops", "rawops-read+recv-mixed" if len(used) == 2 else "rawops-single-kind"))


def _part_rawops(ctx, n):
    run_hypothesis(ctx, _rawops_strategy(), _rawops_test, max_examples=n)


# ---------------------------------------------------------------------------
# check "gitpeer": git itself parses what dulwich wrote (upload-pack, protocol v2, ls-refs with ref-prefix lines)

_PEER_ENV = {"GIT_PROTOCOL": "version=2", "GIT_TRACE_PACKET": "1"}
_MARK = b"packet:  upload-pack< "


def _peer_repo(ctx):
    path = os.path.join(ctx.scratch.path, "peer.git")
    if not os.path.isdir(path):
        cgit.init(path, bare=True)
    return path


def git_reads(ctx, stream):
    """Feed ``stream`` to git upload-pack; returns (returncode, [escaped payloads git logged], stderr tail)."""
    rc, out, err = cgit.git(["upload-pack", "--stateless-rpc", _peer_repo(ctx)], input=stream, check=False, extra_env=_PEER_ENV)
    seen = []
    for line in err.split(b"\n"):
        i = line.find(_MARK)
        if i >= 0:
            seen.append(line[i + len(_MARK) :])
    tail = b"\n".join(l for l in err.split(b"\n") if l.startswith((b"fatal", b"error")))[:300]
    return rc, seen, tail


def exec_gitpeer(ctx, case, check="gitpeer"):
    specs = [tuple(s) for s in case["items"]]
    lines = [b"ref-prefix " + materialise(s) for s in specs]
    seq = [b"command=ls-refs\n", b"object-format=sha1", DELIM] + lines + [None]
    emitted, exc = emit(case["writer"], seq, case.get("bufsize", 65515))
    if exc is not None:
        ctx.fail(f"C19:pkt_line:refused-fitting-payload:{type(exc).__name__}", f"{case['writer']} raised {exc!r}", check, case)
        return
    rc, seen, tail = git_reads(ctx, emitted)
    want = [R.trace_escape(x) if isinstance(x, bytes) else (b"0001" if x == DELIM else b"0000") for x in seq]
    if rc != 0 or b"protocol error" in tail:
        word = "bad-line-length" if b"bad line length" in tail else "rejected"
        ctx.fail(f"C19:git-peer:{word}", f"git upload-pack exited {rc} on a request written by {case['writer']} "
                 f"(payload lengths {[len(l) for l in lines]}): {tail!r}", check, case)
        return
    if seen != want:
        n = next((i for i, (a, b) in enumerate(zip(seen, want)) if a != b), min(len(seen), len(want)))
        ctx.fail("C19:git-peer:packets-differ", f"git logged {len(seen)} packets, {len(want)} were written; first difference at packet {n}: "
                 f"git saw {seen[n][:40] if n < len(seen) else None!r}, expected {want[n][:40] if n < len(want) else None!r}", check, case)


def _part_gitpeer(ctx, item):
    n, nshards, shard = item
    rnd = random.Random(ctx.seed * 7919 + shard * 31 + 5)  # picks from the enumerated domain below only
    lens = [0, 1, 2, 5, 40, 255, 996, 4085, 65000, 65503, 65504, 65505]  # + 11 = up to 65516
    for i in range(n):
        k = rnd.choice([1, 2, 3, 3, 4, 6])
        specs = [("P", rnd.choice(lens), rnd.choice(R.FILLS), rnd.randrange(12)) for _ in range(k)]
        writer = rnd.choice(["pkt_line", "write_pkt_line", "buffered"])
        case = dict(items=specs, writer=writer, bufsize=rnd.choice([5, 100, 65515]))
        exec_gitpeer(ctx, case)
        ctx.case(("peer", tuple(spec_key(s) for s in specs), writer), nontrivial=k >= 3 or any(s[1] >= 65503 for s in specs),
                 labels=("git-peer-reads-dulwich", "git-peer-max-frame" if any(s[1] == 65505 for s in specs) else "git-peer-small"))


# ---------------------------------------------------------------------------
# check "gitadvert": git writes a ref advertisement, dulwich reads it under chunking


def _part_gitadvert(ctx, item):
    n, nshards, shard = item
    from dulwich.client import read_pkt_refs_v1

    P, _, _ = _dw()
    rnd = random.Random(ctx.seed * 104729 + shard * 17 + 3)
    repo = cgit.init(os.path.join(ctx.scratch.path, "adv"))
    cgit.git(["commit", "-q", "--allow-empty", "-m", "one"], cwd=repo)
    cgit.git(["commit", "-q", "--allow-empty", "-m", "two"], cwd=repo)
    c2 = cgit.out(["rev-parse", "HEAD"], cwd=repo).strip()
    c1 = cgit.out(["rev-parse", "HEAD~1"], cwd=repo).strip()
    cgit.git(["tag", "-a", "-m", "t", "v1.0", c1.decode()], cwd=repo)
    names = set()
    for _ in range(rnd.choice([0, 3, 12, 40])):
        comps = [rnd.choice(REF_COMPONENT_POOL) for _ in range(rnd.choice([1, 1, 2, 3]))]
        names.add(b"refs/" + rnd.choice([b"heads/", b"tags/", b"remotes/origin/", b"x/"]) + b"/".join(comps))
    # drop names that collide as directory/file (a ref cannot be both)
    keep = []
    existing = {b"refs/heads/master", b"refs/tags/v1.0"}
    for nme in sorted(names - existing):
        if not any(o != nme and (o.startswith(nme + b"/") or nme.startswith(o + b"/")) for o in names | existing):
            keep.append(nme)
    inp = b"".join(b"create " + nme + b" " + rnd.choice([c1, c2]) + b"\n" for nme in keep)
    rc, _, err = cgit.git(["update-ref", "--stdin"], cwd=repo, input=inp, check=False)
    if rc != 0:
        raise HarnessError(f"git refused generated ref names (generator self-check): {err[:300]!r}")
    head_target = rnd.choice([None] + [k for k in keep if k.startswith(b"refs/heads/")][:3])
    if head_target:
        cgit.git(["symbolic-ref", "HEAD", head_target], cwd=repo)
    advert = cgit.out(["upload-pack", "--advertise-refs", repo])
    # ground truth from git's porcelain, not from the advertisement
    want = {}
    fmt = "%(objectname) %(*objectname) %(refname)"
    for line in cgit.out(["for-each-ref", "--format=" + fmt], cwd=repo).split(b"\n"):
        if not line:
            continue
        oid, peeled, name = line.split(b" ", 2)
        want[name] = oid
        if peeled:
            want[name + b"^{}"] = peeled
    want[b"HEAD"] = cgit.out(["rev-parse", "HEAD"], cwd=repo).strip()
    ev, term = R.parse(advert)
    if not R.strictly_valid(ev, term) or ev[-1].kind != "flush":
        raise HarnessError(f"reference framer rejects git's own advertisement: {term!r}")
    want_caps = set(ev[0].payload.split(b"\0", 1)[1].rstrip(b"\n").split(b" "))
    if not any(c.startswith(b"agent=") for c in want_caps):
        raise HarnessError("no agent capability in git's advertisement")
    for i in range(n):
        pattern = [rnd.choice([1, 2, 3, 4, 5, 7, 13, 64, 1000, 65536]) for _ in range(rnd.choice([1, 2, 3]))]
        short_by = rnd.choice([0, 0, 1])
        if len(advert) > 3000 and min(pattern) < 64:
            sizes, cycle = J.window_plan([e.start for e in ev], len(advert), pattern), [65536]
        else:
            sizes, cycle = [], pattern
        case = dict(advert=advert, want=sorted(want.items()), caps=sorted(want_caps), sizes=sizes, cycle=cycle, short_by=short_by)
        cuts = exec_gitadvert(ctx, case)
        ip, ib = J.cut_classes(ev, cuts)
        ctx.case(("gitadv", advert, tuple(sizes[:64]), tuple(cycle), short_by), nontrivial=len(ev) >= 3 and ip and ib,
                 labels=("git-advertisement-read-by-dulwich", f"git-advert-refs~{min(len(want) // 10 * 10, 40)}"))


def exec_gitadvert(ctx, case, check="gitadvert"):
    from dulwich.client import read_pkt_refs_v1

    P, _, _ = _dw()
    advert = case["advert"]
    tr = J.Wire(advert, case["sizes"], case["cycle"], case.get("short_by", 0))
    rp = P.ReceivableProtocol(tr.recv, None)
    try:
        with J.watchdog(60):
            refs, caps = read_pkt_refs_v1(rp.read_pkt_seq())
    except Exception as e:
        ctx.fail(f"C19:read_pkt_refs_v1:git-advertisement:{type(e).__name__}", f"{type(e).__name__}({e}) on git's advertisement", check, case)
        return tr.cuts
    want = dict(case["want"])
    if dict(refs) != want:
        missing = [r for r in want if r not in refs]
        extra = [r for r in refs if r not in want]
        kind = "refs-missing" if missing else ("refs-extra" if extra else "ids-differ")
        ctx.fail(f"C19:read_pkt_refs_v1:git-advertisement:{kind}", f"missing {missing[:3]!r}, unexpected {extra[:3]!r} "
                 f"(chunk sizes {case['sizes'][:8]} then {case['cycle']})", check, case)
    if set(caps) != set(case["caps"]):
        ctx.fail("C19:read_pkt_refs_v1:git-advertisement:capabilities-differ", f"capabilities {sorted(caps)!r} != {case['caps']!r}", check, case)
    return tr.cuts


# ---------------------------------------------------------------------------
# self-tests of the oracles


def selftest(ctx):
    cgit.selfcheck()
    err = R.selftest()
    if err:
        raise HarnessError(f"reference framer self-test: {err}")
    # reference framer/encoder against git's own parser
    good = [b"ref-prefix a\n", b"ref-prefix \x00\x01\xff\\", b"ref-prefix " + b"y" * (R.MAX_PAYLOAD - 11)]
    head = R.encode_seq([b"command=ls-refs\n", DELIM])
    rc, seen, tail = git_reads(ctx, head + R.encode_seq(good + [None]))
    if rc != 0 or seen != [b"command=ls-refs", b"0001"] + [R.trace_escape(g) for g in good] + [b"0000"]:
        raise HarnessError(f"git does not read the reference encoder's stream as expected: rc={rc} {tail!r} {[x[:40] for x in seen[:5]]!r}")
    rc, seen, tail = git_reads(ctx, head + b"000Fref-prefix " + b"0000")  # upper-case hex is accepted by git
    if rc != 0:
        raise HarnessError(f"git rejects upper-case hex lengths: {tail!r}")
    bad = {
        b"00g5ref-prefix x0000": b"bad line length character",
        b"0003": b"bad line length",
        b"+00fref-prefix 0000": b"bad line length character",
        b"10000" + b"ref-prefix " + b"y" * 65521 + b"0000": b"",
        b"fff4" + b"ref-prefix " + b"y" * 65509 + b"0000": b"bad line length",
    }
    for tailbytes, word in bad.items():
        rc, seen, tail = git_reads(ctx, head + tailbytes)
        ev, term = R.parse(head + tailbytes)
        if rc == 0 or word not in tail:
            raise HarnessError(f"git accepted a stream the self-test expects it to refuse: {tailbytes[:24]!r} rc={rc} {tail!r}")
        if R.strictly_valid(ev, term):
            raise HarnessError(f"reference framer accepts what git refuses: {tailbytes[:24]!r}")
    # a short body is a hang-up for git and a short-body for the reference
    rc, seen, tail = git_reads(ctx, head + b"0010ref-pre")
    if rc == 0 or R.parse(head + b"0010ref-pre")[1][0] != "short-body":
        raise HarnessError("short body not refused")
    # pack writer against git index-pack
    blobs = [b"", b"hello\n", R.fill(70000, "rnd", 1), R.fill(5000, "zero", 0)]
    pack, entries = R.build_pack([(3, b, lvl, None) for b, lvl in zip(blobs, (6, 0, 1, 9))])
    d = ctx.scratch.new("packself")
    with open(os.path.join(d, "t.pack"), "wb") as f:
        f.write(pack)
    cgit.git(["index-pack", "t.pack"], cwd=d)
    listing = cgit.out(["verify-pack", "-v", "t.idx"], cwd=d)
    for b, e in zip(blobs, entries):
        oid = hashlib.sha1(b"blob %d\0" % len(b) + b).hexdigest().encode()
        if not any(l.startswith(oid + b" blob") and l.split()[-1] == b"%d" % e["offset"] for l in listing.split(b"\n")):
            raise HarnessError(f"git verify-pack does not list blob {oid!r} at offset {e['offset']}")
    # ref name pool against git check-ref-format
    for comp in REF_COMPONENT_POOL:
        rc, _, _ = cgit.git(["check-ref-format", b"refs/heads/" + comp], check=False)
        if rc != 0:
            raise HarnessError(f"ref component {comp!r} is not valid for git")
    # the judge must reject a lying decoder (mutation of the oracle's input, not of dulwich)
    _judge_selftest()


class _Probe:
    def __init__(self):
        self.fails = []

    def fail(self, bucket, message, check, case):
        self.fails.append(bucket)


def _judge_selftest():
    _, GPE, Hang = _dw()
    stream = R.encode_seq([b"a", b"", None, b"bc"])
    ev, term = R.parse(stream)
    good = [b"a", b"", None, b"bc"]

    def run(dec, frames, t):
        p = _Probe()
        J.judge(p, "self", {}, dec, stream, ev, term, frames, t, None, GPE)
        return p.fails

    if run("rproto", good, ("exc", Hang())):
        raise HarnessError("judge rejects a correct decoder run")
    if run("parser", good, ("end", b"")):
        raise HarnessError("judge rejects a correct parser run")
    for frames, t in [(good[:3], ("exc", Hang())), (good + [b"x"], ("exc", Hang())), ([b"a", None, None, b"bc"], ("exc", Hang())),
                      (good, ("exc", ValueError())), (good, ("runaway",)), ([b"a", b"", None, b"bd"], ("exc", Hang()))]:
        if not run("rproto", frames, t):
            raise HarnessError(f"judge accepts a wrong decoder run: {frames!r} {t!r}")
    if not run("parser", good, ("end", b"x")) or not run("parser", good[:3], ("end", b"")):
        raise HarnessError("judge accepts a wrong parser run")


# ---------------------------------------------------------------------------


def _dispatch(ctx, item):
    fn, arg = item
    fn(ctx, arg)


def _run_parts(ctx, parts):
    """parts: [(fn, [16 per-shard arguments])].  One fork per shard runs its slice of every part (a single barrier)."""
    if os.environ.get("VERIF_C19_TIMING"):  # development aid: one phase per part, CPU seconds printed
        import resource
        import time

        for fn, args in parts:
            t = time.time()
            r0 = resource.getrusage(resource.RUSAGE_CHILDREN)
            ctx.parallel(fn, args)
            r1 = resource.getrusage(resource.RUSAGE_CHILDREN)
            cpu = r1.ru_utime + r1.ru_stime - r0.ru_utime - r0.ru_stime
            print(f"  [timing] {fn.__name__}: wall {time.time() - t:.1f}s cpu {cpu:.1f}s (={cpu / 16:.1f}s/core)")
        return
    items = []
    for fn, args in parts:
        if len(args) != 16:
            raise HarnessError("every part must come with 16 per-shard arguments")
        items += [(fn, a) for a in args]
    ctx.parallel(_dispatch, items)


def run(ctx):
    selftest(ctx)
    ctx.note("git_version", cgit.version())
    ctx.note("exhaustive", True)
    ctx.note("exhaustive_domains", "all partitions of every item sequence encoding to <= %d bytes (+ all partitions of a seeded "
             "pick of >=3-frame sequences of <= %d bytes); all 65536 length values x {lower,upper} x 4 body lengths; all 14^4 "
             "prefixes over the lenient alphabet" % (ctx.scale(12, 14), ctx.scale(14, 16)))
    ns = 16
    # A: exhaustive partitions of short streams
    maxlen = ctx.scale(12, 14)
    extra_len = maxlen + 2
    seqs = short_sequences(maxlen)
    done = {repr(x) for x in seqs}
    longer = [x for x in short_sequences(extra_len) if repr(x) not in done and len(x) >= 3]
    rnd = random.Random(ctx.seed * 65537 + 11)  # picks from the enumerated domain only
    rnd.shuffle(longer)
    picks = longer[: ctx.scale(16, 48)]
    ctx.note("short_streams_all", len(seqs))
    ctx.note("short_streams_picked_3_frames", len(picks))
    allseq = seqs + picks
    # deal by cost (2^(len-1) partitions each): longest first, round-robin
    allseq.sort(key=lambda x: (-len(R.encode_seq([materialise(i) for i in x])), repr(x)))
    step = 65536 // ns
    # prefix values are dealt in interleaved blocks so that every shard gets small and large bodies
    blocks = [(b * 256, (b + 1) * 256) for b in range(256)]
    parts = [
        (_part_compositions, [(allseq[k::ns], maxlen) for k in range(ns)]),
        (_part_prefixes, [blocks[k::ns] for k in range(ns)]),
        (_part_alphabet, [(ns, k) for k in range(ns)]),
        (_part_roundtrip, [ctx.scale(200, 6000)] * ns),
        (_part_mutation, [ctx.scale(220, 6000)] * ns),
        (_part_oversize, [ctx.scale(12, 150)] * ns),
        (_part_sideband, [ctx.scale(40, 1000)] * ns),
        (_part_nested, [ctx.scale(60, 1500)] * ns),
        (_part_caps, [(ctx.scale(100, 3000), ctx.scale(80, 2500))] * ns),
        (_part_pack, [ctx.scale(60, 2000)] * ns),
        (_part_rawops, [ctx.scale(150, 5000)] * ns),
        (_part_gitpeer, [(ctx.scale(20, 130), ns, k) for k in range(ns)]),
        (_part_gitadvert, [(ctx.scale(15, 200), ns, k) for k in range(ns)]),
    ]
    _run_parts(ctx, parts)
    # coverage-guided campaigns over raw byte streams under arbitrary chunking, same oracle inside the target (E3)
    from .. import fuzz

    fuzz.run_campaigns(ctx, "vf.fuzzt.c19", [("decode_stream", ctx.scale(6000, 500000), ctx.scale(8, 16))])


def replay(ctx, check, case):
    if check.startswith("fuzz"):
        from .. import fuzz

        return fuzz.replay(ctx, case, check)
    if check == "roundtrip":
        exec_roundtrip(ctx, case)
    elif check == "compositions":
        exec_compositions(ctx, case, count=False)
    elif check == "oversize":
        exec_oversize(ctx, case)
    elif check == "sideband":
        exec_sideband(ctx, case)
    elif check == "nested":
        exec_nested(ctx, case)
    elif check == "decode":
        exec_decode(ctx, case)
    elif check == "prefix":
        exec_prefix(ctx, case)
    elif check == "alphabet":
        exec_alphabet(ctx, case)
    elif check == "caps":
        exec_caps(ctx, case)
    elif check == "refs":
        exec_refs(ctx, case)
    elif check == "pack":
        exec_pack(ctx, case)
    elif check == "rawops":
        exec_rawops(ctx, case)
    elif check == "gitpeer":
        exec_gitpeer(ctx, case)
    elif check == "gitadvert":
        exec_gitadvert(ctx, case)
    else:
        raise HarnessError(f"unknown check {check!r}")
