"""E3 — coverage-guided fuzzing (atheris / libFuzzer) with the property's oracle inside the target.

A *target* is a plain function ``fn(data: bytes) -> str`` living in a module ``vf.fuzzt.<name>``; it decodes the bytes
into structured arguments, drives dulwich and judges the outcome itself: it returns a label (labels starting with
``"nt:"`` count as non-trivial) or raises ``Finding(bucket, message)``.  The module lists its targets in

    TARGETS = {"<target>": dict(fn=..., seeds=lambda: [bytes, ...], max_len=..., imports=["dulwich.x", ...])}

``campaign(ctx, module, target, runs)`` runs one libFuzzer campaign in a child process (``python -m vf.fuzz_child``;
dulwich is imported there under atheris' bytecode instrumentation, so coverage of the *Python* code guides the
mutation; the Rust extensions are opaque to it).  libFuzzer stops at the first uncaught exception, so the parent
re-executes every artifact un-instrumented in a forked sandbox, records the finding by bucket, adds the bucket to the
child's exclusion list and restarts the campaign on the same corpus until the run budget is used up: one shallow defect
does not hide what lies behind it.  A campaign is bounded by the number of executions, never by the clock; libFuzzer's
per-input ``-timeout`` only produces an artifact that is then re-judged deterministically (call budget) by the parent.

Every campaign is a function of (code, VERIF_SEED, shard) only approximately (libFuzzer's ``-seed`` pins the mutation
sequence, coverage feedback does the rest); the reproducible unit is the saved input, which becomes the replay file.
"""

from __future__ import annotations

import fcntl
import glob
import importlib
import json
import os
import shutil
import subprocess
import sys

from . import sandbox
from .core import REPO, VERIF_DIR, HarnessError, h64

DEPS = os.path.join(VERIF_DIR, ".deps")
WHEELS = "/opt/veriftools/wheels"


class Finding(Exception):
    def __init__(self, bucket, message):
        super().__init__(f"{bucket}: {message}")
        self.bucket = bucket
        self.message = message


def ensure_atheris():
    """atheris is not part of the repository's environment: install it (offline) next to /verif on first use."""
    if os.path.isdir(os.path.join(DEPS, "atheris")):
        return
    os.makedirs(DEPS, exist_ok=True)
    with open(os.path.join(DEPS, ".lock"), "w") as lk:
        fcntl.flock(lk, fcntl.LOCK_EX)
        if os.path.isdir(os.path.join(DEPS, "atheris")):
            return
        p = subprocess.run([sys.executable, "-m", "pip", "install", "-q", "--no-index", "--find-links", WHEELS, "--target", DEPS, "atheris"],
                           capture_output=True, text=True)
        if p.returncode != 0 or not os.path.isdir(os.path.join(DEPS, "atheris")):
            raise HarnessError(f"cannot install atheris offline from {WHEELS}:\n{p.stdout[-1500:]}{p.stderr[-1500:]}")


def load_target(module, target):
    mod = importlib.import_module(module)
    try:
        return mod.TARGETS[target]
    except KeyError:
        raise HarnessError(f"no fuzz target {target!r} in {module}")


def judge_input(ctx, module, target, data, check="fuzz", pure=False):
    """Plain re-execution of one input (replay files, artifacts): forked, un-instrumented.  Returns the outcome label."""
    t = load_target(module, target)
    case = dict(module=module, target=target, data=data, pure=pure)
    out = {}

    def fn(sub, c):
        from . import rustext

        # targets keep their scratch below VF_FUZZ_WORK (see fuzzt.common.JudgeCtx): here it dies with this child's context
        os.environ["VF_FUZZ_WORK"] = sub.scratch.new("fzr")
        if pure:
            rustext.use_twins("pure")
        try:
            lab = t["fn"](data)
            sub.note("fuzz-replay-label", lab)
        except Finding as f:
            sub.fail(f.bucket, f.message, check, case)
        finally:
            if pure:
                rustext.use_twins("rust")

    def death(c, cc, how):
        out["died"] = how
        c.fail(f"{ctx.prop}:fuzz:{target}:process-died:{how}", f"fuzz input for {target} killed the process ({how})", check, case)

    sandbox.isolated(ctx, fn, [("x",)], death)
    return out


def campaign(ctx, module, target, runs, check="fuzz", pure=False, rss_mb=6144, per_input_timeout=60):
    """One libFuzzer campaign of about ``runs`` executions; findings go to ``ctx`` bucket by bucket."""
    ensure_atheris()
    t = load_target(module, target)
    work = ctx.scratch.new("fz")
    corpus = os.path.join(work, "corpus")
    art = os.path.join(work, "art")
    os.makedirs(corpus)
    os.makedirs(art)
    # seed functions may build state through the target's own environment (fuzzt.common.JudgeCtx): keep its scratch below
    # the work directory and drop the cached state afterwards (the directory goes away with the campaign)
    os.environ["VF_FUZZ_WORK"] = work
    if t.get("reset"):
        t["reset"]()
    try:
        seeds = list(t["seeds"]()) if t.get("seeds") else []
    finally:
        os.environ.pop("VF_FUZZ_WORK", None)
        if t.get("reset"):
            t["reset"]()
    for i, s in enumerate(seeds):
        with open(os.path.join(corpus, "seed-%03d" % i), "wb") as f:
            f.write(s)
    excluded = set(ctx.known_open)
    remaining = runs
    total = dict(execs=0, nontrivial=0, labels={}, excluded=0, cov=0, corpus=0)
    seed = (h64(ctx.seed, ctx.shard, module, target) % 0x7FFFFFFE) + 1
    env = dict(os.environ, PYTHONPATH=os.pathsep.join([VERIF_DIR, DEPS] + ([os.environ["PYTHONPATH"]] if os.environ.get("PYTHONPATH") else [])),
               VERIF_REPO=REPO, PYTHONHASHSEED="0", RUST_BACKTRACE="0")
    env["VF_FUZZ_WORK"] = work  # scratch of the child lives (and dies) with the campaign's work directory
    if pure:
        env["VF_FUZZ_PURE"] = "1"
    nt_keys = set()
    for restart in range(12):
        if remaining <= 0:
            break
        with open(os.path.join(work, "excluded.json"), "w") as f:
            json.dump(sorted(excluded), f)
        stats_path = os.path.join(work, "stats.json")
        if os.path.exists(stats_path):
            os.unlink(stats_path)
        cmd = [sys.executable, "-m", "vf.fuzz_child", module, target, work, corpus, f"-runs={remaining}", f"-seed={seed + restart}",
               f"-max_len={t.get('max_len', 4096)}", f"-timeout={per_input_timeout}", f"-rss_limit_mb={rss_mb}", f"-artifact_prefix={art}/",
               "-print_final_stats=1", "-verbosity=0", "-len_control=0" if t.get("no_len_control") else "-len_control=100"]
        p = subprocess.run(cmd, env=env, cwd=VERIF_DIR, capture_output=True)
        try:
            with open(stats_path) as f:
                st = json.load(f)
        except (FileNotFoundError, ValueError):
            raise HarnessError(f"fuzz child for {module}:{target} left no statistics (exit {p.returncode}):\n{p.stderr[-3000:].decode('latin1')}")
        total["execs"] += st["execs"]
        total["excluded"] += st["excluded"]
        for k, v in st["labels"].items():
            total["labels"][k] = total["labels"].get(k, 0) + v
        nt_keys.update(st["nt_keys"])
        remaining -= max(st["execs"], 1)
        arts = sorted(glob.glob(os.path.join(art, "*")))
        if st.get("harness_error"):
            raise HarnessError(f"fuzz target {module}:{target} raised outside its oracle:\n{st['harness_error']}")
        if not arts:
            if p.returncode != 0:
                raise HarnessError(f"fuzz child for {module}:{target} exited {p.returncode} without an artifact:\n{p.stderr[-3000:].decode('latin1')}")
            break
        for a in arts:
            with open(a, "rb") as f:
                data = f.read()
            kind = os.path.basename(a).split("-")[0]
            sub = ctx.child(ctx.shard)
            out = judge_input(sub, module, target, data, check, pure)
            if sub.violations:
                for b, v in sub.violations.items():
                    ctx.record_violation(b, v["message"], v["check"], v["case"]) if b not in ctx.known_open else None
                    excluded.add(b)
            elif sub.excluded:
                excluded.update(sub.excluded)
            elif kind == "timeout":
                ctx.label("fuzz-timeout-not-confirmed")
                ctx.inconclusive = True
            else:
                # e.g. rss limit reached by the accumulated corpus, or an input that only fails under instrumentation:
                # nothing a replay can show, so nothing is claimed
                ctx.label(f"fuzz-artifact-not-reproduced:{kind}")
                if st.get("last_finding"):
                    ctx.notes.append(f"fuzz {target}: the instrumented child reported {st['last_finding'][0]} ({st['last_finding'][1][:200]}) on an input that "
                                     "does not reproduce un-instrumented in a fresh process; not claimed")
            ctx.excluded.update(sub.excluded)
            os.unlink(a)
    total["corpus"] = len(os.listdir(corpus))
    ctx.case(None, nontrivial=False, n=total["execs"], labels=())
    ctx.nontrivial |= {h64("fz", target, k) for k in nt_keys}
    for k, v in total["labels"].items():
        ctx.label(f"fuzz:{target}:{k}", n=v)
    ctx.label(f"fuzz-campaign:{target}" + (":pure" if pure else ""))
    ctx.label(f"fuzz-execs:{target}", n=total["execs"])
    ctx.label(f"fuzz-corpus:{target}", n=total["corpus"])
    if total["excluded"]:
        ctx.label(f"fuzz-excluded-known:{target}", n=total["excluded"])
    # a few corpus entries as samples of what the fuzzer built
    for name in sorted(os.listdir(corpus))[-3:]:
        with open(os.path.join(corpus, name), "rb") as f:
            d = f.read()
        if len(ctx.samples) < ctx.MAX_SAMPLES:
            from .core import show

            ctx.samples.append(show(dict(fuzz_target=target, corpus_entry=d[:160], length=len(d))))
    shutil.rmtree(work, ignore_errors=True)
    return total


def replay(ctx, case, check="fuzz"):
    judge_input(ctx, case["module"], case["target"], case["data"], check, case.get("pure", False))


class Cursor:
    """Minimal data provider: consumes the fuzz input front to back, zeros when exhausted."""

    def __init__(self, data):
        self.d = data
        self.i = 0

    def byte(self):
        if self.i < len(self.d):
            b = self.d[self.i]
            self.i += 1
            return b
        return 0

    def take(self, n):
        out = self.d[self.i : self.i + n]
        self.i += len(out)
        return out

    def lp(self, two=False):
        """Length-prefixed byte string (1 or 2 length bytes)."""
        n = self.byte()
        if two:
            n |= self.byte() << 8
        return self.take(n)

    def rest(self):
        return self.take(len(self.d))

    def left(self):
        return len(self.d) - self.i


def _part_campaign(ctx, item):
    module, target, runs, pure = item
    campaign(ctx, module, target, runs, pure=pure)


def run_campaigns(ctx, module, plan):
    """plan: [(target, runs per campaign, number of campaigns)]; campaigns alternate Rust / pure-Python twins."""
    ensure_atheris()
    items = []
    for target, runs, n in plan:
        twins = load_target(module, target).get("twins", True)
        for k in range(n):
            items.append((module, target, runs, bool(k % 2) and twins))
    ctx.parallel(_part_campaign, items)
