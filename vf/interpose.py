"""E2 — Python-level file-system interposer.

While an *actor* (a thread registered with the interposer) runs, every
file-system entry point dulwich uses is replaced by a wrapper that (a) records
an event, (b) asks the active *policy* what to do — yield to another actor
(scheduler), snapshot the directory (crash enumeration), raise an injected
fault — and (c) performs the real call.  Calls from other threads, and calls on
paths outside the scratch root, pass through untouched.

Three policies:

* Scheduler  — deterministic interleavings: exactly one actor runs at a time and
  can lose the baton only inside a wrapper.  An execution is a pure function of
  the *schedule* (which actor runs at each decision point).
* CrashPolicy — the operation runs once undisturbed; the directory is copied
  whenever its state may have changed since the previous event.  Each copy is
  what a process killed at that instant leaves behind (data still buffered in
  Python file objects is not on disk, completed write(2)s are).
* FaultPolicy — "fail event k with errno e" / raise KeyboardInterrupt there.
"""

from __future__ import annotations

import builtins
import errno as _errno
import hashlib
import io
import os
import shutil
import stat as _stat
import tempfile
import threading

_REAL = {}
_ACTIVE = None  # the installed Interposer (one per process)

MUTATING = {
    "open-w", "write", "flush", "close-w", "truncate", "replace", "rename", "remove", "rmdir", "mkdir",
    "utime", "chmod", "symlink", "link", "fsync",
}


class Event:
    __slots__ = ("actor", "n", "op", "path", "path2", "extra", "result", "exc")

    def __init__(self, actor, n, op, path, path2=None, extra=None):
        self.actor = actor
        self.n = n
        self.op = op
        self.path = path
        self.path2 = path2
        self.extra = extra
        self.result = None
        self.exc = None

    @property
    def mutating(self):
        return self.op in MUTATING

    def brief(self, root=""):
        def rel(p):
            if p is None:
                return None
            return p[len(root):].lstrip("/") if root and p.startswith(root) else p

        s = f"{self.actor}:{self.op} {rel(self.path)}"
        if self.path2:
            s += f" -> {rel(self.path2)}"
        if self.exc:
            s += f" !{self.exc}"
        return s


class Injected(OSError):
    """Marker mix-in so the harness can tell its own faults from real ones."""


class ActorDone(Exception):
    pass


def _fs(p):
    if isinstance(p, int):
        return None
    try:
        p = os.fspath(p)
    except TypeError:
        return None
    if isinstance(p, bytes):
        p = os.fsdecode(p)
    if not os.path.isabs(p):
        p = os.path.join(os.getcwd(), p)
    return os.path.normpath(p)


class FileProxy:
    """Wraps a writable file object: write/flush/close/truncate are events."""

    def __init__(self, ip, f, path):
        object.__setattr__(self, "_ip", ip)
        object.__setattr__(self, "_f", f)
        object.__setattr__(self, "_path", path)

    def write(self, data):
        self._ip.event("write", self._path, extra=len(data))
        return self._f.write(data)

    def writelines(self, lines):
        for l in lines:
            self.write(l)

    def flush(self):
        if not self._f.closed:
            self._ip.event("flush", self._path)
        return self._f.flush()

    def truncate(self, *a):
        self._ip.event("truncate", self._path)
        return self._f.truncate(*a)

    def close(self):
        if not self._f.closed:
            self._ip.event("close-w", self._path)
        return self._f.close()

    def __enter__(self):
        return self

    def __exit__(self, *a):
        self.close()

    def __iter__(self):
        return iter(self._f)

    def __next__(self):
        return next(self._f)

    def __getattr__(self, name):
        return getattr(self._f, name)

    def __setattr__(self, name, value):
        setattr(self._f, name, value)


class Interposer:
    def __init__(self, root, policy=None):
        self.root = os.path.normpath(root)
        self.policy = policy
        self.trace = []
        self.actors = {}  # thread ident -> actor name
        self.fdpath = {}
        self._n = 0
        self.lock = threading.RLock()
        self._tls = threading.local()

    # -- identification ---------------------------------------------------------
    def actor(self):
        if getattr(self._tls, "busy", False):
            return None  # calls made by a policy itself (snapshots, probes) pass through
        return self.actors.get(threading.get_ident())

    def under(self, p):
        return p is not None and (p == self.root or p.startswith(self.root + os.sep))

    # -- the event hook -----------------------------------------------------------
    def event(self, op, path, path2=None, extra=None):
        a = self.actor()
        if a is None:
            return None
        ev = Event(a, self._n, op, path, path2, extra)
        self._n += 1
        if self.policy is not None:
            self._tls.busy = True
            try:
                self.policy.before(self, ev)  # may block (scheduler), snapshot, or raise
            finally:
                self._tls.busy = False
        self.trace.append(ev)
        return ev

    # -- install / uninstall --------------------------------------------------------
    def install(self):
        global _ACTIVE
        if _ACTIVE is not None:
            raise RuntimeError("an interposer is already installed")
        _ACTIVE = self
        ip = self

        def path_fn(name, op, npaths=1):
            real = getattr(os, name)
            _REAL[("os", name)] = real

            def w(*a, **k):
                if ip.actor() is None:
                    return real(*a, **k)
                p1 = _fs(a[0]) if a else None
                p2 = _fs(a[1]) if npaths == 2 and len(a) > 1 else None
                if not (ip.under(p1) or ip.under(p2)) or k.get("dir_fd") is not None:
                    return real(*a, **k)
                ev = ip.event(op, p1, p2)
                try:
                    r = real(*a, **k)
                except BaseException as e:
                    ev.exc = type(e).__name__
                    raise
                return r

            w.__name__ = name
            setattr(os, name, w)

        for name, op in [("replace", "replace"), ("rename", "rename")]:
            path_fn(name, op, 2)
        for name, op in [("remove", "remove"), ("unlink", "remove"), ("rmdir", "rmdir"), ("mkdir", "mkdir"), ("utime", "utime"),
                         ("chmod", "chmod"), ("truncate", "truncate"), ("listdir", "listdir"), ("scandir", "listdir"),
                         ("stat", "stat"), ("lstat", "stat"), ("readlink", "readlink"), ("access", "stat")]:
            path_fn(name, op)
        for name, op in [("symlink", "symlink"), ("link", "link")]:
            real = getattr(os, name)
            _REAL[("os", name)] = real

            def w2(src, dst, *a, _real=real, _op=op, **k):
                p = _fs(dst)
                if ip.actor() is None or not ip.under(p):
                    return _real(src, dst, *a, **k)
                ev = ip.event(_op, p)
                try:
                    return _real(src, dst, *a, **k)
                except BaseException as e:
                    ev.exc = type(e).__name__
                    raise

            setattr(os, name, w2)

        real_open = os.open
        _REAL[("os", "open")] = real_open

        def os_open(path, flags, mode=0o777, *a, **k):
            p = _fs(path)
            if ip.actor() is None or not ip.under(p) or k.get("dir_fd") is not None:
                return real_open(path, flags, mode, *a, **k)
            writing = bool(flags & (os.O_WRONLY | os.O_RDWR | os.O_CREAT | os.O_TRUNC | os.O_APPEND))
            ev = ip.event("open-w" if writing else "open-r", p, extra=("excl" if flags & os.O_EXCL else None))
            try:
                fd = real_open(path, flags, mode, *a, **k)
            except BaseException as e:
                ev.exc = type(e).__name__
                raise
            if writing:
                ip.fdpath[fd] = p
            return fd

        os.open = os_open

        real_close = os.close
        _REAL[("os", "close")] = real_close

        def os_close(fd):
            p = ip.fdpath.pop(fd, None)
            if p is not None and ip.actor() is not None:
                ip.event("close-w", p)
            return real_close(fd)

        os.close = os_close

        real_fsync = os.fsync
        _REAL[("os", "fsync")] = real_fsync

        def os_fsync(fd):
            if ip.actor() is not None:
                f = fd if isinstance(fd, int) else fd.fileno()
                p = ip.fdpath.get(f)
                if p is not None:
                    ip.event("fsync", p)
            return real_fsync(fd)

        os.fsync = os_fsync

        real_fdopen = os.fdopen
        _REAL[("os", "fdopen")] = real_fdopen

        def os_fdopen(fd, *a, **k):
            f = real_fdopen(fd, *a, **k)
            p = ip.fdpath.get(fd)
            if p is not None and ip.actor() is not None:
                return FileProxy(ip, f, p)
            return f

        os.fdopen = os_fdopen

        real_bopen = builtins.open
        _REAL[("builtins", "open")] = real_bopen

        def b_open(file, mode="r", *a, **k):
            if ip.actor() is None or isinstance(file, int):
                return real_bopen(file, mode, *a, **k)
            p = _fs(file)
            if not ip.under(p):
                return real_bopen(file, mode, *a, **k)
            writing = any(c in mode for c in "wax+")
            ev = ip.event("open-w" if writing else "open-r", p)
            try:
                f = real_bopen(file, mode, *a, **k)
            except BaseException as e:
                ev.exc = type(e).__name__
                raise
            if writing:
                try:
                    ip.fdpath[f.fileno()] = p
                except Exception:
                    pass
                return FileProxy(ip, f, p)
            return f

        builtins.open = b_open
        _REAL[("io", "open")] = io.open
        io.open = b_open

        # deterministic temp names (mkstemp goes through os.open, which is interposed)
        _REAL[("tempfile", "_get_candidate_names")] = tempfile._get_candidate_names
        counter = iter(range(1, 1 << 30))
        lock = threading.Lock()

        class _Names:
            def __iter__(self):
                return self

            def __next__(self):
                with lock:
                    return "vf%06d" % next(counter)

        names = _Names()
        tempfile._get_candidate_names = lambda: names

    def uninstall(self):
        global _ACTIVE
        for (mod, name), real in _REAL.items():
            target = {"os": os, "builtins": builtins, "io": io, "tempfile": tempfile}[mod]
            setattr(target, name, real)
        _REAL.clear()
        _ACTIVE = None

    # -- running actors --------------------------------------------------------------
    def run_single(self, name, fn):
        """Run fn() as the only actor in the current thread (crash / fault policies)."""
        self.actors[threading.get_ident()] = name
        try:
            return fn()
        finally:
            self.actors.pop(threading.get_ident(), None)


# ---------------------------------------------------------------------------
# directory state


def dir_state(root):
    """Canonical hash + listing of a directory tree (names, types, sizes, content hashes)."""
    items = []
    for d, dirs, files in os.walk(root):
        dirs.sort()
        rel = os.path.relpath(d, root)
        items.append(("d", rel))
        for f in sorted(files):
            p = os.path.join(d, f)
            try:
                st = os.lstat(p)
                if _stat.S_ISLNK(st.st_mode):
                    items.append(("l", os.path.join(rel, f), os.readlink(p)))
                else:
                    with io.open(p, "rb") as fh:
                        items.append(("f", os.path.join(rel, f), hashlib.sha1(fh.read()).hexdigest()))
            except FileNotFoundError:
                pass
    return hashlib.sha1(repr(items).encode()).hexdigest(), items


# ---------------------------------------------------------------------------
# policies


class RecordPolicy:
    def before(self, ip, ev):
        pass


class CrashPolicy:
    """Copy the directory before every event at which its state differs from the last copy.

    Power-loss bookkeeping: ``touched`` = files opened for writing during the operation, ``synced`` = their on-disk
    size when they were last fsynced (an fsync covers what has reached the file descriptor, not what is still in a
    Python buffer).  At snapshot time a touched file whose on-disk size differs from its synced size has unsynced
    data: everything beyond the synced size (the whole file if it was never fsynced) may be lost.
    """

    def __init__(self, root, out_dir, max_snapshots=400):
        self.root = root
        self.out = out_dir
        self.seen = {}
        self.snaps = []  # dicts: at, state, path, next, unsynced=[(file, synced_size|None)]
        self.max = max_snapshots
        self.touched = {}
        self.synced = {}
        self.truncated = False

    def _unsynced(self):
        out = []
        for p in sorted(self.touched):
            try:
                size = os.stat(p).st_size
            except OSError:
                continue
            if self.synced.get(p) != size:
                out.append((p, self.synced.get(p)))
        return out

    def snapshot(self, ip, label, next_ev=None):
        h, _ = dir_state(self.root)
        if h in self.seen:
            return
        if len(self.snaps) >= self.max:
            self.truncated = True
            return
        dst = os.path.join(self.out, "s%04d" % len(self.snaps))
        shutil.copytree(self.root, dst, symlinks=True)
        self.seen[h] = dst
        self.snaps.append(dict(at=label, state=h, path=dst, next=(next_ev.brief(self.root) if next_ev else "end"),
                               unsynced=self._unsynced()))

    def before(self, ip, ev):
        # the previous events have been performed; what is on disk now is the crash state before `ev`
        self.snapshot(ip, ev.n, ev)
        if ev.op in ("open-w", "write", "truncate"):
            self.touched[ev.path] = True
        elif ev.op == "fsync":
            try:
                self.synced[ev.path] = os.stat(ev.path).st_size  # what has reached the descriptor so far
            except OSError:
                pass
        elif ev.op in ("replace", "rename"):
            if ev.path in self.touched:
                self.touched[ev.path2] = self.touched.pop(ev.path)
                if ev.path in self.synced:
                    self.synced[ev.path2] = self.synced.pop(ev.path)
                else:
                    self.synced.pop(ev.path2, None)
        elif ev.op == "remove":
            self.touched.pop(ev.path, None)
            self.synced.pop(ev.path, None)


class FaultPolicy:
    """Fail the k-th event whose op is in ``ops`` with ``exc`` (an exception instance)."""

    def __init__(self, k, exc, ops):
        self.k = k
        self.exc = exc
        self.ops = ops
        self.count = 0
        self.fired = None

    def before(self, ip, ev):
        if ev.op in self.ops:
            if self.count == self.k and self.fired is None:
                self.fired = ev
                self.count += 1
                ev.exc = "injected:" + type(self.exc).__name__
                ip.trace.append(ev)
                raise self.exc
            self.count += 1


def make_fault(kind):
    if kind == "KeyboardInterrupt":
        return KeyboardInterrupt()
    code = getattr(_errno, kind)
    return OSError(code, os.strerror(code) + " (injected)")


class Scheduler:
    """Baton-passing deterministic scheduler.

    ``choose(runnable, current, step)`` returns the actor to run next; the
    default strategy objects below implement fixed schedules and DFS exploration.
    """

    def __init__(self, strategy, visible=None):
        self.strategy = strategy
        self.visible = visible  # predicate(ev) -> is this a scheduling point
        self.cv = threading.Condition()
        self.current = None
        self.waiting = {}  # actor -> pending event
        self.finished = set()
        self.names = []
        self.decisions = []  # (runnable tuple, chosen)
        self.switches_while_pending = 0

    # called in actor threads
    def before(self, ip, ev):
        if self.visible is not None and not self.visible(ev):
            return
        a = ev.actor
        with self.cv:
            self.waiting[a] = ev
            self._decide(a)
            while self.current != a:
                self.cv.wait()
            self.waiting.pop(a, None)

    def _runnable(self):
        return [n for n in self.names if n not in self.finished]

    def _decide(self, frm):
        runnable = self._runnable()
        if not runnable:
            self.current = None
            self.cv.notify_all()
            return
        # only decide when every unfinished actor is parked at an event (or is the caller)
        if any(n not in self.waiting for n in runnable):
            return
        nxt = self.strategy.choose(tuple(runnable), self.current if self.current in runnable else None, len(self.decisions), self.waiting)
        self.decisions.append((tuple(runnable), nxt))
        if nxt != self.current:
            # wake the parked actors only when the baton really changes hands: under load every needless wake-up
            # costs two context switches
            self.current = nxt
            self.cv.notify_all()

    def actor_main(self, ip, name, fn, results):
        ip.actors[threading.get_ident()] = name
        try:
            # park before the first step so the strategy controls who starts
            self.before(ip, Event(name, -1, "start", None))
            try:
                results[name] = ("ok", fn())
            except BaseException as e:  # results are observations for the oracle
                results[name] = ("exc", type(e).__name__, str(e)[:200])
        finally:
            ip.actors.pop(threading.get_ident(), None)
            with self.cv:
                self.finished.add(name)
                self.waiting.pop(name, None)
                if self.current == name:
                    self.current = None
                self._decide(name)

    def run(self, ip, programs):
        """programs: list of (name, fn). Returns {name: outcome}."""
        self.names = [n for n, _ in programs]
        results = {}
        threads = [threading.Thread(target=self.actor_main, args=(ip, n, fn, results), daemon=True) for n, fn in programs]
        for t in threads:
            t.start()
        for t in threads:
            t.join(900)
            if t.is_alive():
                raise RuntimeError("scheduler deadlock / actor did not finish within 900 s")
        return results


class FixedSchedule:
    """Follow a list of actor names; afterwards (or if the named actor is not runnable) run non-preemptively."""

    def __init__(self, schedule):
        self.schedule = list(schedule)

    def choose(self, runnable, current, step, waiting):
        if step < len(self.schedule) and self.schedule[step] in runnable:
            return self.schedule[step]
        if current is not None:
            return current
        return runnable[0]


class PreemptAt:
    """Run non-preemptively except at the given decision steps, where the k-th *other* runnable actor is chosen."""

    def __init__(self, points):
        self.points = dict(points)

    def choose(self, runnable, current, step, waiting):
        default = current if current is not None else runnable[0]
        if step in self.points:
            others = [r for r in runnable if r != default]
            if others:
                return others[self.points[step] % len(others)]
        return default


class DFSExplorer:
    """Stateless depth-first exploration of schedules with a preemption bound.

    Usage:  ex = DFSExplorer(bound); while ex.more(): strategy = ex.next_run(); run(...); ex.done_run()
    A *preemption* is choosing another actor while the current one is still runnable.
    """

    def __init__(self, bound, max_runs=None):
        self.bound = bound
        self.stack = []  # list of [options, index] per decision of the current prefix
        self.first = True
        self.runs = 0
        self.max_runs = max_runs
        self.exhausted = False

    def more(self):
        if self.max_runs is not None and self.runs >= self.max_runs:
            return False
        return self.first or bool(self.stack)

    def next_run(self):
        self.first = False
        self.pos = 0
        self.preemptions = 0
        self.runs += 1
        return self

    def choose(self, runnable, current, step, waiting):
        if self.pos < len(self.stack):
            opts, idx = self.stack[self.pos]
            choice = opts[idx]
            if choice not in runnable:  # non-determinism guard
                choice = current if current in runnable else runnable[0]
        else:
            # options: default first (continue current), then the others if preemption budget allows
            default = current if current is not None else runnable[0]
            opts = [default]
            if current is None:
                opts += [r for r in runnable if r != default]
            elif self.preemptions < self.bound:
                opts += [r for r in runnable if r != default]
            self.stack.append([opts, 0])
            choice = opts[0]
        if current is not None and choice != current and current in runnable:
            self.preemptions += 1
        self.pos += 1
        return choice

    def done_run(self):
        # backtrack: drop exhausted tail decisions, advance the deepest one with options left
        while self.stack and self.stack[-1][1] + 1 >= len(self.stack[-1][0]):
            self.stack.pop()
        if self.stack:
            self.stack[-1][1] += 1
        else:
            self.exhausted = True

    def current_schedule(self):
        return [opts[idx] for opts, idx in self.stack]
