"""C01 reference model: git's object grammar, written from git's writers.

Sources: git's ``object-file.c`` (``<type> SP <decimal length> NUL <body>``),
``tree.c``/``cache-tree.c``/``read-cache.c:base_name_compare`` (entry format
``"%o %s\\0" + raw id``; a directory compares as if its name ended in '/'),
``commit.c:commit_tree_extended`` + ``add_extra_header`` (header order ``tree,
parent*, author, committer, [encoding], extra*, [gpgsig]``, blank line, message;
a multi-line header value continues on lines prefixed with one space),
``tag.c``/``builtin/tag.c`` (``object, type, tag, [tagger]``, blank line, body =
message followed by the detached signature) and ``date.c:date_string`` /
fast-import's raw date (``<decimal seconds> SP [+-]HHMM``).

Nothing here imports dulwich.  Records are plain dicts so that they can be
stored in replay files.

  blob    {"t": "blob", "chunks": [bytes, ...]}
  tree    {"t": "tree", "fmt": "sha1"|"sha256", "entries": [(name, mode, hexid), ...]}   (insertion order)
  commit  {"t": "commit", "tree": hex, "parents": [hex], "author": ident, "author_time": int,
           "author_tz": (seconds, neg_utc), "committer": ident, "commit_time": int, "commit_tz": (..),
           "encoding": None|bytes, "mergetag": [tag record], "extra": [(key, value)], "gpgsig": None|bytes,
           "message": None|bytes}
  tag     {"t": "tag", "object": hex, "otype": b"commit"|.., "name": bytes, "tagger": None|ident,
           "tag_time": int|None, "tag_tz": (seconds, neg_utc)|None, "message": None|bytes,
           "signature": None|bytes}
"""

from __future__ import annotations

import binascii
import functools
import hashlib

S_IFMT = 0o170000
S_IFDIR = 0o040000
S_IFGITLINK = 0o160000

MODE_FILE = 0o100644
MODE_EXEC = 0o100755
MODE_LINK = 0o120000
MODE_DIR = 0o040000
MODE_GITLINK = 0o160000
LEGAL_MODES = (MODE_FILE, MODE_EXEC, MODE_LINK, MODE_DIR, MODE_GITLINK)

TYPE_NUM = {b"commit": 1, b"tree": 2, b"blob": 3, b"tag": 4}


def object_id(type_name: bytes, body: bytes, fmt: str = "sha1") -> bytes:
    h = hashlib.sha1() if fmt == "sha1" else hashlib.sha256()
    h.update(type_name + b" " + str(len(body)).encode("ascii") + b"\0")
    h.update(body)
    return h.hexdigest().encode("ascii")


# ---------------------------------------------------------------------------
# trees


def _is_dir(mode: int) -> bool:
    return (mode & S_IFMT) == S_IFDIR


def base_name_compare(e1, e2) -> int:
    """read-cache.c:base_name_compare on (name, mode, id) entries."""
    n1, m1 = e1[0], e1[1]
    n2, m2 = e2[0], e2[1]
    ln = min(len(n1), len(n2))
    a, b = n1[:ln], n2[:ln]
    if a != b:
        return -1 if a < b else 1
    c1 = n1[ln] if len(n1) > ln else (0x2F if _is_dir(m1) else 0)
    c2 = n2[ln] if len(n2) > ln else (0x2F if _is_dir(m2) else 0)
    return (c1 > c2) - (c1 < c2)


def sort_entries(entries):
    return sorted(entries, key=functools.cmp_to_key(base_name_compare))


def ser_tree_sorted(entries) -> bytes:
    """Serialise entries in the order given (no sorting)."""
    out = []
    for name, mode, hexid in entries:
        out.append(b"%o " % mode + name + b"\0" + binascii.unhexlify(hexid))
    return b"".join(out)


def ser_tree(rec) -> bytes:
    # a later entry with the same name replaces an earlier one (the logical tree is a map)
    last = {}
    for name, mode, hexid in rec["entries"]:
        last[name] = (name, mode, hexid)
    return ser_tree_sorted(sort_entries(list(last.values())))


def tree_has_prefix_collision(entries) -> bool:
    """True if the 'directory sorts as name/' rule changes the order of these entries.

    That is: sorting by plain name and sorting with git's rule disagree.
    """
    last = {}
    for name, mode, hexid in entries:
        last[name] = (name, mode, hexid)
    vals = list(last.values())
    return [e[0] for e in sorted(vals)] != [e[0] for e in sort_entries(vals)]


# ---------------------------------------------------------------------------
# idents / time


def fmt_tz(tz) -> bytes:
    secs, neg = tz
    if secs % 60:
        raise ValueError("timezone not on a minute")
    sign = b"-" if (secs < 0 or neg) else b"+"
    mins = abs(secs) // 60
    return sign + b"%02d%02d" % (mins // 60, mins % 60)


def fmt_ident_line(ident: bytes, time: int, tz) -> bytes:
    return ident + b" " + str(time).encode("ascii") + b" " + fmt_tz(tz)


def _header(key: bytes, value: bytes) -> bytes:
    """commit.c:add_extra_header / strbuf_add_lines: continuation lines get one leading space."""
    lines = value.split(b"\n")
    out = [key + b" " + lines[0] + b"\n"]
    for ln in lines[1:]:
        out.append(b" " + ln + b"\n")
    return b"".join(out)


# ---------------------------------------------------------------------------
# tags / commits


def ser_tag(rec) -> bytes:
    out = [
        b"object " + rec["object"] + b"\n",
        b"type " + rec["otype"] + b"\n",
        b"tag " + rec["name"] + b"\n",
    ]
    if rec.get("tagger"):
        out.append(b"tagger " + fmt_ident_line(rec["tagger"], rec["tag_time"], rec["tag_tz"]) + b"\n")
    out.append(b"\n")
    out.append(rec.get("message") or b"")
    out.append(rec.get("signature") or b"")
    return b"".join(out)


def ser_commit(rec) -> bytes:
    out = [b"tree " + rec["tree"] + b"\n"]
    for p in rec["parents"]:
        out.append(b"parent " + p + b"\n")
    out.append(b"author " + fmt_ident_line(rec["author"], rec["author_time"], rec["author_tz"]) + b"\n")
    out.append(b"committer " + fmt_ident_line(rec["committer"], rec["commit_time"], rec["commit_tz"]) + b"\n")
    if rec.get("encoding"):
        out.append(b"encoding " + rec["encoding"] + b"\n")
    for t in rec.get("mergetag") or ():
        body = ser_tag(t)
        # strbuf_add_lines: the value is the tag buffer; its last line is completed with LF
        if body.endswith(b"\n"):
            body = body[:-1]
        out.append(_header(b"mergetag", body))
    for k, v in rec.get("extra") or ():
        out.append(_header(k, v))
    if rec.get("gpgsig"):
        out.append(_header(b"gpgsig", rec["gpgsig"]))
    out.append(b"\n")
    out.append(rec.get("message") or b"")
    return b"".join(out)


def ser_blob(rec) -> bytes:
    return b"".join(rec["chunks"])


SERIALISERS = {"blob": ser_blob, "tree": ser_tree, "commit": ser_commit, "tag": ser_tag}


def serialise(rec) -> bytes:
    return SERIALISERS[rec["t"]](rec)


def rec_id(rec, fmt="sha1") -> bytes:
    return object_id(rec["t"].encode(), serialise(rec), fmt)


# ---------------------------------------------------------------------------
# fast-import stream encoding (git as the writer)


def fi_data(b: bytes) -> bytes:
    return b"data %d\n" % len(b) + b + b"\n"
