"""Independent minimal writer/reader for the pack format and the delta format.

Written from Documentation/gitformat-pack.txt and patch-delta.c, not from
dulwich.  Used as reference model / input builder by several properties.
"""

from __future__ import annotations

import hashlib
import struct
import zlib

OBJ_COMMIT, OBJ_TREE, OBJ_BLOB, OBJ_TAG, OBJ_OFS_DELTA, OBJ_REF_DELTA = 1, 2, 3, 4, 6, 7
TYPE_NAMES = {1: b"commit", 2: b"tree", 3: b"blob", 4: b"tag"}


def obj_id(type_name: bytes, data: bytes, algo="sha1") -> bytes:
    h = hashlib.new(algo)
    h.update(type_name + b" " + str(len(data)).encode() + b"\0")
    h.update(data)
    return h.digest()


def enc_obj_header(type_num: int, size: int) -> bytes:
    c = (type_num << 4) | (size & 0x0F)
    size >>= 4
    out = bytearray()
    while size:
        out.append(c | 0x80)
        c = size & 0x7F
        size >>= 7
    out.append(c)
    return bytes(out)


def enc_ofs(offset: int) -> bytes:
    out = [offset & 0x7F]
    offset >>= 7
    while offset:
        offset -= 1
        out.append(0x80 | (offset & 0x7F))
        offset >>= 7
    return bytes(reversed(out))


def build_pack(entries, algo="sha1", level=-1) -> bytes:
    """entries: list of (type_num, payload, extra) where extra is the 20/32-byte
    base id for REF deltas, the *index of the base entry* for OFS deltas, else None."""
    body = bytearray(b"PACK" + struct.pack(">LL", 2, len(entries)))
    offsets = []
    for type_num, payload, extra in entries:
        offsets.append(len(body))
        body += enc_obj_header(type_num, len(payload))
        if type_num == OBJ_REF_DELTA:
            body += extra
        elif type_num == OBJ_OFS_DELTA:
            body += enc_ofs(offsets[-1] - offsets[extra])
        body += zlib.compress(payload, level)
    body += hashlib.new(algo, bytes(body)).digest()
    return bytes(body)


def parse_pack(data: bytes, hash_len=20):
    """Yield (offset, type_num, size, payload, extra) for each entry; extra = base id
    (REF) or absolute base offset (OFS).  Verifies header and trailer."""
    if data[:4] != b"PACK":
        raise ValueError("bad magic")
    version, count = struct.unpack(">LL", data[4:12])
    if version not in (2, 3):
        raise ValueError("bad version")
    algo = "sha1" if hash_len == 20 else "sha256"
    if hashlib.new(algo, data[:-hash_len]).digest() != data[-hash_len:]:
        raise ValueError("bad trailer")
    pos = 12
    out = []
    for _ in range(count):
        start = pos
        c = data[pos]
        pos += 1
        type_num = (c >> 4) & 7
        size = c & 0x0F
        shift = 4
        while c & 0x80:
            c = data[pos]
            pos += 1
            size |= (c & 0x7F) << shift
            shift += 7
        extra = None
        if type_num == OBJ_REF_DELTA:
            extra = data[pos : pos + hash_len]
            pos += hash_len
        elif type_num == OBJ_OFS_DELTA:
            c = data[pos]
            pos += 1
            off = c & 0x7F
            while c & 0x80:
                c = data[pos]
                pos += 1
                off = ((off + 1) << 7) | (c & 0x7F)
            extra = start - off
        d = zlib.decompressobj()
        payload = d.decompress(data[pos:])
        if not d.eof:
            raise ValueError("truncated zlib stream")
        pos = len(data) - len(d.unused_data)
        if len(payload) != size:
            raise ValueError("size mismatch")
        out.append((start, type_num, size, payload, extra))
    if pos != len(data) - hash_len:
        raise ValueError("garbage before trailer")
    return out


# ---------------------------------------------------------------------------
# delta format


class DeltaError(Exception):
    pass


def read_varint(delta: bytes, pos: int):
    """Unbounded little-endian base-128 size (delta header)."""
    size = 0
    shift = 0
    while True:
        if pos >= len(delta):
            raise DeltaError("truncated size")
        c = delta[pos]
        pos += 1
        size |= (c & 0x7F) << shift
        shift += 7
        if not c & 0x80:
            return size, pos


def enc_varint(n: int, min_bytes=1) -> bytes:
    out = bytearray()
    while True:
        c = n & 0x7F
        n >>= 7
        if n or len(out) + 1 < min_bytes:
            out.append(c | 0x80)
        else:
            out.append(c)
            return bytes(out)


def patch_delta(base: bytes, delta: bytes) -> bytes:
    """Strict transcription of git's patch-delta.c (any malformed op is an error)."""
    src_size, pos = read_varint(delta, 0)
    if src_size != len(base):
        raise DeltaError("source size mismatch")
    size, pos = read_varint(delta, pos)
    ops = []
    left = size
    top = len(delta)
    while pos < top:
        cmd = delta[pos]
        pos += 1
        if cmd & 0x80:
            cp_off = cp_size = 0
            for i in range(4):
                if cmd & (1 << i):
                    if pos >= top:
                        raise DeltaError("truncated copy")
                    cp_off |= delta[pos] << (8 * i)
                    pos += 1
            for i in range(3):
                if cmd & (0x10 << i):
                    if pos >= top:
                        raise DeltaError("truncated copy")
                    cp_size |= delta[pos] << (8 * i)
                    pos += 1
            if cp_size == 0:
                cp_size = 0x10000
            if cp_off + cp_size > len(base) or cp_size > left:
                raise DeltaError("copy out of range")
            ops.append((base, cp_off, cp_size))
            left -= cp_size
        elif cmd:
            if cmd > left or cmd > top - pos:
                raise DeltaError("insert out of range")
            ops.append((delta, pos, cmd))
            pos += cmd
            left -= cmd
        else:
            raise DeltaError("opcode 0")
    if left != 0:
        raise DeltaError("size mismatch")
    # (validated first, materialised afterwards: the reference itself must not blow up on hostile input)
    return b"".join(buf[o : o + n] for buf, o, n in ops)


def is_concat_of_slices(out: bytes, sources) -> bool:
    """True iff ``out`` can be cut into pieces each of which occurs contiguously in
    one of ``sources``.  Greedy longest-match is complete because every prefix of
    a substring is a substring."""
    pos = 0
    n = len(out)
    while pos < n:
        lo, hi = 0, n - pos
        # longest L with out[pos:pos+L] in some source (monotone in L)
        while lo < hi:
            mid = (lo + hi + 1) // 2
            piece = out[pos : pos + mid]
            if any(piece in s for s in sources):
                lo = mid
            else:
                hi = mid - 1
        if lo == 0:
            return False
        pos += lo
    return True
