"""C13 reference model: commit DAGs, timestamp orderings, brute-force ancestry oracles.

A DAG is a tuple ``parents`` where ``parents[i]`` is a tuple of indices ``< i``
(topological numbering, acyclic by construction).  Ancestor sets are bitmasks.
Nothing in this file looks at dulwich.
"""

from __future__ import annotations

import itertools

from ..core import HarnessError


# ---------------------------------------------------------------------------
# ancestry


def anc_masks(parents):
    """anc[i] = bitmask of anc*(i) (reflexive, transitive)."""
    anc = []
    for i, ps in enumerate(parents):
        m = 1 << i
        for p in ps:
            m |= anc[p]
        anc.append(m)
    return anc


def bits(m):
    out = []
    i = 0
    while m:
        if m & 1:
            out.append(i)
        m >>= 1
        i += 1
    return out


def maximal(mask, anc):
    """Elements x of mask that are not a proper ancestor of another element of mask."""
    out = 0
    for x in bits(mask):
        # x is dominated if some other y in mask has x in anc*(y)
        dominated = False
        for y in bits(mask):
            if y != x and (anc[y] >> x) & 1:
                dominated = True
                break
        if not dominated:
            out |= 1 << x
    return out


def merge_bases(anc, a, bs):
    """Maximal elements of anc*(a) & U anc*(b)  ("a against a hypothetical merge of bs")."""
    u = 0
    for b in bs:
        u |= anc[b]
    return maximal(anc[a] & u, anc)


def octopus_bases(anc, xs):
    m = -1
    for x in xs:
        m &= anc[x]
    return maximal(m, anc)


def is_ancestor(anc, a, b):
    """a in anc*(b)"""
    return bool((anc[b] >> a) & 1)


def independent(anc, s):
    """Members of the *set* s that are not an ancestor of another member."""
    ss = sorted(set(s))
    return {x for x in ss if not any(y != x and (anc[y] >> x) & 1 for y in ss)}


def reach(anc, xs):
    m = 0
    for x in xs:
        m |= anc[x]
    return m


def is_monotone(parents, times):
    return all(times[p] <= times[i] for i, ps in enumerate(parents) for p in ps)


def has_skew(parents, times):
    """some parent strictly newer than its child"""
    return any(times[p] > times[i] for i, ps in enumerate(parents) for p in ps)


def has_merge(parents):
    return any(len(ps) > 1 for ps in parents)


# ---------------------------------------------------------------------------
# enumeration of DAG shapes up to isomorphism


def _all_labelled(n):
    """All DAGs on 0..n-1 in topological numbering (parents of i are a subset of 0..i-1)."""
    choices = []
    for i in range(n):
        subs = []
        for m in range(1 << i):
            subs.append(tuple(j for j in range(i) if (m >> j) & 1))
        choices.append(subs)
    return itertools.product(*choices)


def _canon(parents):
    """Canonical form of the DAG up to isomorphism (brute force within invariant classes)."""
    n = len(parents)
    anc = anc_masks(parents)
    children = [[] for _ in range(n)]
    for i, ps in enumerate(parents):
        for p in ps:
            children[p].append(i)
    desc = [0] * n
    for i in reversed(range(n)):
        m = 1 << i
        for c in children[i]:
            m |= desc[c]
        desc[i] = m
    depth = [0] * n
    for i, ps in enumerate(parents):
        depth[i] = 1 + max((depth[p] for p in ps), default=-1)
    inv = [
        (depth[i], len(parents[i]), len(children[i]), bin(anc[i]).count("1"), bin(desc[i]).count("1"),
         tuple(sorted(len(parents[p]) for p in parents[i])), tuple(sorted(len(children[c]) for c in children[i])))
        for i in range(n)
    ]
    order = sorted(range(n), key=lambda i: inv[i])
    groups = []
    for k, g in itertools.groupby(order, key=lambda i: inv[i]):
        groups.append(list(g))
    edges = [(i, p) for i, ps in enumerate(parents) for p in ps]
    best = None
    for perm_parts in itertools.product(*[itertools.permutations(g) for g in groups]):
        new = {}
        pos = 0
        for part in perm_parts:
            for old in part:
                new[old] = pos
                pos += 1
        enc = tuple(sorted((new[i], new[p]) for i, p in edges))
        if best is None or enc < best:
            best = enc
    return (n, tuple(sorted(inv)), best)


_shape_cache = {}


def shapes(n):
    """One topologically numbered representative per isomorphism class of DAGs on n nodes."""
    if n not in _shape_cache:
        seen = set()
        out = []
        for g in _all_labelled(n):
            c = _canon(g)
            if c not in seen:
                seen.add(c)
                out.append(tuple(g))
        _shape_cache[n] = out
    return _shape_cache[n]


def shapes_slice(n, nshards, shard):
    """Canonical keys + representatives found in the shard-th slice of the labelled enumeration
    (used to parallelise n = 6: the parent unions the per-shard dicts, keeping the smallest rep)."""
    out = {}
    for i, g in enumerate(_all_labelled(n)):
        if i % nshards != shard:
            continue
        c = _canon(g)
        if c not in out:
            out[c] = tuple(g)
    return out


# ---------------------------------------------------------------------------
# weak orderings (ordered set partitions) of n items -> rank vectors


def weak_orderings(n):
    """All rank vectors r (r[i] in 0..k-1, every rank used) = all relative orders with ties."""
    out = []

    def rec(i, cur, used):
        if i == n:
            k = max(cur) + 1
            if len(set(cur)) == k:
                out.append(tuple(cur))
            return
        for r in range(n):
            cur.append(r)
            rec(i + 1, cur, used)
            cur.pop()

    # n <= 6 -> n**n <= 46656 candidates; fine
    rec(0, [], None)
    return out


_wo_cache = {}


def orderings(n):
    if n not in _wo_cache:
        _wo_cache[n] = weak_orderings(n)
    return _wo_cache[n]


# ---------------------------------------------------------------------------
# self-test


def selftest():
    counts = [len(shapes(n)) for n in range(1, 6)]
    if counts != [1, 2, 6, 31, 302]:
        raise HarnessError(f"C13 model: DAG shape counts {counts} != [1, 2, 6, 31, 302] (OEIS A003087)")
    fub = [len(orderings(n)) for n in range(1, 6)]
    if fub != [1, 3, 13, 75, 541]:
        raise HarnessError(f"C13 model: weak-ordering counts {fub} != Fubini numbers")
    # hand-computed graphs
    # criss-cross: 0 root; 1,2 children of 0; 3 = merge(1,2); 4 = merge(1,2)
    g = ((), (0,), (0,), (1, 2), (1, 2))
    anc = anc_masks(g)
    if anc != [1, 3, 5, 15, 23]:
        raise HarnessError(f"C13 model: anc masks wrong {anc}")
    if bits(merge_bases(anc, 3, [4])) != [1, 2]:
        raise HarnessError("C13 model: criss-cross merge bases wrong")
    if bits(merge_bases(anc, 1, [2])) != [0] or bits(merge_bases(anc, 1, [3])) != [1]:
        raise HarnessError("C13 model: simple merge bases wrong")
    if not is_ancestor(anc, 0, 4) or is_ancestor(anc, 3, 4) or not is_ancestor(anc, 2, 2):
        raise HarnessError("C13 model: is_ancestor wrong")
    if independent(anc, [0, 1, 3, 4]) != {3, 4} or independent(anc, [1, 2]) != {1, 2}:
        raise HarnessError("C13 model: independent wrong")
    # two roots: 0, 1 roots; 2 = merge(0,1); 3 child of 1
    g2 = ((), (), (0, 1), (1,))
    anc2 = anc_masks(g2)
    if bits(merge_bases(anc2, 0, [1])) != [] or bits(merge_bases(anc2, 2, [3])) != [1]:
        raise HarnessError("C13 model: multi-root merge bases wrong")
    if bits(merge_bases(anc2, 2, [0, 3])) != [0, 1]:
        raise HarnessError("C13 model: multi-target merge bases wrong")
    # octopus: 0 root, 1,2,3 children of 0, 4 = merge(1,2)
    g3 = ((), (0,), (0,), (0,), (1, 2))
    anc3 = anc_masks(g3)
    if bits(octopus_bases(anc3, [4, 1, 3])) != [0] or bits(octopus_bases(anc3, [4, 1, 2])) != [0]:
        raise HarnessError("C13 model: octopus wrong")
    if bits(octopus_bases(anc3, [4, 1])) != [1]:
        raise HarnessError("C13 model: octopus pair wrong")
    if not is_monotone(g, [0, 1, 1, 2, 2]) or is_monotone(g, [1, 0, 1, 2, 2]) or not has_skew(g, [1, 0, 1, 2, 2]):
        raise HarnessError("C13 model: monotone wrong")
