"""C17 reference pieces: which tree paths git *must* refuse, and the confinement snapshot.

``must_refuse`` is written from git's documentation of ``core.protectNTFS`` / ``core.protectHFS`` and of the
path rules every git applies on checkout (no empty, ``.``, ``..`` component, no component equal to ``.git`` in any
case).  It is deliberately a *lower bound*: it only names paths that are unsafe beyond doubt, so that demanding
their refusal can never be over-reach.  ``selftest_against_git`` checks, in the run itself, that the installed C git
refuses every path ``must_refuse`` names (under the same two settings).
"""

from __future__ import annotations

import os
import re
import stat

from ..core import HarnessError

# code points HFS+ ignores when comparing names (git: utf8.c, documented under core.protectHFS)
HFS_IGNORABLE = frozenset(
    [0x200C, 0x200D, 0x200E, 0x200F, 0x202A, 0x202B, 0x202C, 0x202D, 0x202E, 0x206A, 0x206B, 0x206C, 0x206D, 0x206E, 0x206F, 0xFEFF]
)
_UPPER = bytes(range(65, 91))
_LOWER = bytes(range(97, 123))
_ASCII_LOWER = bytes.maketrans(_UPPER, _LOWER)


def _alow(b: bytes) -> bytes:
    return b.translate(_ASCII_LOWER)


def _ntfs_dotgit(seg: bytes) -> bool:
    """``.git`` or its 8.3 short name ``git~1``, then only dots/spaces up to the end or a ``:`` (alternate stream)."""
    low = _alow(seg)
    if low.startswith(b".git"):
        rest = seg[4:]
    elif low.startswith(b"git~1"):
        rest = seg[5:]
    else:
        return False
    for c in rest:
        if c == 0x3A:
            return True
        if c not in (0x2E, 0x20):
            return False
    return True


def _hfs_dotgit(comp: bytes) -> bool:
    try:
        s = comp.decode("utf-8", "strict")
    except UnicodeDecodeError:
        return False  # not demanded (dulwich may still refuse it)
    kept = "".join(ch for ch in s if ord(ch) not in HFS_IGNORABLE)
    try:
        return _alow(kept.encode("utf-8")) == b".git"
    except UnicodeEncodeError:
        return False


def unsafe_class(path: bytes, ntfs: bool, hfs: bool):
    """Return a short class name if ``path`` must be refused under the two settings, else None."""
    if path.startswith(b"/"):
        return "absolute"
    for comp in path.split(b"/"):
        if comp == b"":
            return "empty-component"
        if comp == b".":
            return "dot"
        if comp == b"..":
            return "dotdot"
        if _alow(comp) == b".git":
            return "dotgit" if comp == b".git" else "dotgit-case"
        if ntfs:
            for seg in comp.split(b"\\"):
                if _ntfs_dotgit(seg):
                    return "ntfs-dotgit"
        if hfs and _hfs_dotgit(comp):
            return "hfs-dotgit"
    return None


def must_refuse(path: bytes, ntfs: bool, hfs: bool) -> bool:
    return unsafe_class(path, ntfs, hfs) is not None


def selftest_against_git(names, scratch_dir):
    """Every name the reference calls unsafe must be refused by C git's own index code (4 settings)."""
    from .. import cgit

    repo = os.path.join(scratch_dir, "ref-selftest")
    cgit.init(repo)
    blob = cgit.out(["hash-object", "-w", "--stdin"], cwd=repo, input=b"x").strip().decode()
    # hand-computed expectations first (the reference itself)
    expect = [
        (b"a/b", True, True, None), (b".git", False, False, "dotgit"), (b".GIT/x", False, False, "dotgit-case"),
        (b"a/../b", False, False, "dotdot"), (b"a//b", False, False, "empty-component"), (b"/abs", False, False, "absolute"),
        (b".git ", True, False, "ntfs-dotgit"), (b".git ", False, False, None), (b"git~1", True, False, "ntfs-dotgit"),
        (b"git~10", True, False, None), (b".git::$INDEX_ALLOCATION", True, False, "ntfs-dotgit"),
        (b"a\\.git\\x", True, False, "ntfs-dotgit"), (b"a\\.git\\x", False, True, None),
        (".g\u200cit".encode(), False, True, "hfs-dotgit"), (".g\u200cit".encode(), True, False, None),
        (b".gitmodules", True, True, None), (b"..a", True, True, None), (b".git.x", True, True, None),
    ]
    for p, n, h, want in expect:
        got = unsafe_class(p, n, h)
        if got != want:
            raise HarnessError(f"c17 reference self-test: unsafe_class({p!r}, ntfs={n}, hfs={h}) = {got!r}, expected {want!r}")
    checked = 0
    disagreements = []
    idx = os.path.join(scratch_dir, "ref-selftest-index")
    for ntfs in (True, False):
        for hfs in (True, False):
            for name in names:
                if b"\0" in name or b"\n" in name or not name:
                    continue
                if not must_refuse(name, ntfs, hfs):
                    continue
                if os.path.exists(idx):
                    os.unlink(idx)
                rc, _o, err = cgit.git(
                    ["-c", f"core.protectNTFS={'true' if ntfs else 'false'}", "-c", f"core.protectHFS={'true' if hfs else 'false'}",
                     "update-index", "--add", "--cacheinfo", f"100644,{blob},".encode() + name],
                    cwd=repo, check=False, extra_env={"GIT_INDEX_FILE": idx},
                )
                checked += 1
                if rc == 0:
                    disagreements.append((name, ntfs, hfs))
    if disagreements:
        raise HarnessError(f"c17 reference calls paths unsafe that git {cgit.version()} accepts: {disagreements[:5]!r}")
    if checked < 20:
        raise HarnessError(f"c17 reference self-test checked only {checked} names")
    return checked


# ---------------------------------------------------------------------------
# confinement snapshot

_OBJ_RE = re.compile(r"^objects/(?:[0-9a-f]{2}(?:/[0-9a-f]{38})?|pack(?:/pack-[0-9a-f]{40}\.(?:pack|idx|rev|bitmap|keep|mtimes))?|info(?:/[A-Za-z0-9._-]+)?)$")


def valid_object_path(rel_to_git: str) -> bool:
    return bool(_OBJ_RE.match(rel_to_git))


def snapshot(root: str, work: str):
    """{relative path: record} for everything under ``root`` except the non-.git content of ``work``.

    Records: ("d", perm, ino) / ("l", target, ino) / ("f", perm, ino, size, mtime_ns, content-or-None) /
    ("o", mode).  Content is kept for every regular file; nothing is followed.
    """
    out = {}
    objects_dir = os.path.join(work, ".git", "objects")
    stack = [root]
    plen = len(root) + 1
    while stack:
        d = stack.pop()
        in_objects = d == objects_dir or d.startswith(objects_dir + "/")
        try:
            it = os.scandir(d)
        except FileNotFoundError:
            continue
        with it:
            for e in it:
                if d == work and e.name != ".git":
                    continue
                p = e.path
                st = e.stat(follow_symlinks=False)
                rel = p[plen:]
                m = st.st_mode
                if stat.S_ISDIR(m):
                    out[rel] = ("d", stat.S_IMODE(m), st.st_ino)
                    stack.append(p)
                elif stat.S_ISLNK(m):
                    out[rel] = ("l", os.readlink(p), st.st_ino)
                elif stat.S_ISREG(m):
                    with open(p, "rb") as f:
                        content = f.read(1 << 20)
                    # existing loose objects are legitimately "freshened" (utime) when written again: no mtime there
                    out[rel] = ("f", stat.S_IMODE(m), st.st_ino, st.st_size, None if in_objects else st.st_mtime_ns, content)
                else:
                    out[rel] = ("o", m)
    return out


def diff_snapshots(before, after, fold=True):
    """[(rel, kind, detail)] with kind in created/deleted/modified/chmod/replaced."""
    changes = []
    for rel in sorted(set(before) | set(after)):
        b, a = before.get(rel), after.get(rel)
        if b == a:
            continue
        if b is None:
            changes.append((rel, "created", _describe(a)))
        elif a is None:
            changes.append((rel, "deleted", _describe(b)))
        elif b[0] != a[0]:
            changes.append((rel, "replaced", f"{_describe(b)} -> {_describe(a)}"))
        elif b[0] == "f":
            if b[5] != a[5] or b[3] != a[3]:
                changes.append((rel, "modified", f"{_describe(b)} -> {_describe(a)}"))
            elif b[2] != a[2]:
                changes.append((rel, "replaced", f"same content, new inode ({_describe(a)})"))
            elif b[1] != a[1]:
                changes.append((rel, "chmod", f"{b[1]:o} -> {a[1]:o}"))
            else:
                changes.append((rel, "modified", "rewritten with identical content (mtime changed)"))
        elif b[0] == "d":
            if b[2] != a[2]:
                changes.append((rel, "replaced", "directory re-created"))
            else:
                changes.append((rel, "chmod", f"{b[1]:o} -> {a[1]:o}"))
        elif b[0] == "l":
            changes.append((rel, "modified", f"{_describe(b)} -> {_describe(a)}"))
        else:
            changes.append((rel, "modified", f"{b!r} -> {a!r}"))
    return fold_changes(changes) if fold else changes


def fold(changes):
    return fold_changes(changes)


def fold_changes(changes):
    """Drop the children of created / deleted directories (for messages)."""
    folded = []
    tops = []
    for rel, kind, detail in sorted(changes):
        if kind in ("created", "deleted") and any(rel.startswith(t + "/") and k == kind for t, k in tops):
            continue
        if kind in ("created", "deleted") and detail.startswith("dir"):
            tops.append((rel, kind))
        folded.append((rel, kind, detail))
    return folded


def _describe(rec):
    if rec[0] == "d":
        return f"dir {rec[1]:o}"
    if rec[0] == "l":
        return f"symlink -> {rec[1]!r}"
    if rec[0] == "f":
        c = rec[5]
        body = "" if c is None else " " + repr(c[:60])
        return f"file {rec[1]:o} {rec[3]}B{body}"
    return repr(rec)


MARKER_RE = re.compile(rb"MK[0-9a-f]{14}")


def scan_worktree(work: str):
    """(set of relative paths (bytes) of every entry below ``work`` outside ``.git``,
    {symlink path: (target, realpath)}); nothing is followed."""
    entries = set()
    links = {}
    stack = [work]
    plen = len(work) + 1
    while stack:
        d = stack.pop()
        try:
            it = os.scandir(d)
        except (FileNotFoundError, NotADirectoryError):
            continue
        with it:
            for e in it:
                if d == work and e.name == ".git":
                    continue
                try:
                    st = e.stat(follow_symlinks=False)
                except FileNotFoundError:
                    continue
                if e.name == ".git" and d != work and stat.S_ISREG(st.st_mode) and _is_gitdir_file(e.path):
                    continue  # the "gitdir: ..." placeholder dulwich (like git) writes into a submodule directory
                entries.add(os.fsencode(e.path[plen:]))
                if stat.S_ISDIR(st.st_mode):
                    stack.append(e.path)
                elif stat.S_ISLNK(st.st_mode):
                    try:
                        links[e.path] = (os.readlink(e.path), os.path.realpath(e.path))
                    except OSError:
                        pass
    return entries, links


def _is_gitdir_file(path):
    try:
        fd = os.open(path, os.O_RDONLY | os.O_NOFOLLOW)
    except OSError:
        return False
    try:
        return os.read(fd, 8) == b"gitdir: "
    finally:
        os.close(fd)


def mechanism(path: str, links) -> str:
    """How a write to ``path`` (absolute) can have got there: through a work tree symlink that resolves to it
    (final component), through one that resolves to one of its parent directories (leading component), or by name."""
    best = "by-name"
    for _l, (_t, resolved) in links.items():
        if resolved == path:
            return "via-final-symlink"
        if path.startswith(resolved.rstrip("/") + "/"):
            best = "via-leading-symlink"
    return best
