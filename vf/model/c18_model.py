"""C18 reference model: blob/tree ids, working-directory scan, three-state status.

Written from the git documentation (gitformat-index, git-status "Short Format",
the tree object format), not from dulwich.  Everything here observes the
repository *without* dulwich: the directory by ``os.lstat``/``os.scandir``, the
index through ``git ls-files -s -z``, HEAD through ``git ls-tree -r -z``.

A *listing* is ``{path(bytes): (mode(int), hexsha(bytes))}`` with modes
0o100644, 0o100755, 0o120000.
"""

from __future__ import annotations

import hashlib
import os
import stat

from .. import cgit
from ..core import HarnessError

REG = 0o100644
EXE = 0o100755
LNK = 0o120000
DIRMODE = 0o040000


def blob_sha(data: bytes) -> bytes:
    return hashlib.sha1(b"blob %d\0" % len(data) + data).hexdigest().encode()


def tree_id(listing) -> bytes:
    """Id of the (nested) tree object holding ``listing``; the empty listing is the empty tree."""
    root = {}
    for path, (mode, sha) in listing.items():
        parts = path.split(b"/")
        node = root
        for c in parts[:-1]:
            nxt = node.setdefault(c, {})
            if not isinstance(nxt, dict):
                raise ValueError(f"{path!r}: {c!r} is both a file and a directory")
            node = nxt
        if parts[-1] in node:
            raise ValueError(f"{path!r} is both a file and a directory")
        node[parts[-1]] = (mode, sha)

    def ser(node) -> bytes:
        items = []
        for name, v in node.items():
            if isinstance(v, dict):
                items.append((name + b"/", name, DIRMODE, ser(v)))
            else:
                items.append((name, name, v[0], v[1]))
        items.sort(key=lambda t: t[0])  # directories sort as "name/"
        body = b"".join(b"%o %s\0" % (m, n) + bytes.fromhex(s.decode()) for _, n, m, s in items)
        return hashlib.sha1(b"tree %d\0" % len(body) + body).hexdigest().encode()

    return ser(root)


# ---------------------------------------------------------------------------
# observing the three states


def wd_mode(st) -> int:
    if stat.S_ISLNK(st.st_mode):
        return LNK
    return EXE if st.st_mode & 0o100 else REG


def scan_workdir(root: bytes):
    """Returns (files, dirs): files = {path: (mode, sha, size)}, dirs = set of directory paths (relative)."""
    files = {}
    dirs = set()

    def walk(absd, rel):
        with os.scandir(absd) as it:
            entries = sorted(it, key=lambda e: e.name)
        for e in entries:
            name = e.name
            if not rel and name == b".git":
                continue
            p = rel + name
            st = e.stat(follow_symlinks=False)
            if stat.S_ISDIR(st.st_mode):
                dirs.add(p)
                walk(os.path.join(absd, name), p + b"/")
            elif stat.S_ISLNK(st.st_mode):
                t = os.readlink(os.path.join(absd, name))
                files[p] = (LNK, blob_sha(t), len(t))
            elif stat.S_ISREG(st.st_mode):
                with open(os.path.join(absd, name), "rb") as f:
                    data = f.read()
                files[p] = (wd_mode(st), blob_sha(data), len(data))
            else:
                raise HarnessError(f"unexpected file type in work tree: {p!r}")

    walk(root, b"")
    return files, dirs


def read_index(repo_dir) -> dict:
    """{path: (mode, sha)} from ``git ls-files -s -z``; unmerged stages are a harness error (never generated)."""
    out = cgit.out(["ls-files", "-s", "-z"], cwd=repo_dir)
    res = {}
    for rec in out.split(b"\0"):
        if not rec:
            continue
        meta, path = rec.split(b"\t", 1)
        mode, sha, stage = meta.split(b" ")
        if stage != b"0":
            raise HarnessError(f"unmerged index entry {rec!r}")
        if path in res:
            raise HarnessError(f"duplicate index entry {path!r}")
        res[path] = (int(mode, 8), sha)
    return res


def read_tree(repo_dir, rev=b"HEAD") -> dict:
    out = cgit.out(["ls-tree", "-r", "-z", rev], cwd=repo_dir)
    res = {}
    for rec in out.split(b"\0"):
        if not rec:
            continue
        meta, path = rec.split(b"\t", 1)
        mode, typ, sha = meta.split(b" ")
        res[path] = (int(mode, 8), sha)
    return res


def df_conflicts(listing):
    """Paths that are both an entry and a directory prefix of another entry (an index git cannot write as a tree)."""
    bad = set()
    for p in listing:
        parts = p.split(b"/")
        for i in range(1, len(parts)):
            pre = b"/".join(parts[:i])
            if pre in listing:
                bad.add(pre)
    return bad


# ---------------------------------------------------------------------------
# expected status


def has_prefix(index_paths_sorted, prefix: bytes) -> bool:
    """Is there an index entry whose path starts with ``prefix`` (which ends in '/')?"""
    import bisect

    i = bisect.bisect_left(index_paths_sorted, prefix)
    return i < len(index_paths_sorted) and index_paths_sorted[i].startswith(prefix)


def expected_status(H, I, W):
    """H, I: listings; W: {path: (mode, sha, ...)} from scan_workdir.

    Returns dict of sets: add, delete, modify (index vs HEAD), unstaged (work
    tree vs index, incl. deleted), untracked_all, untracked_normal and
    normal_suppressed (collapsed directories `d/` that git does not list in
    normal mode because `d` itself is an index entry — see git's
    index_name_is_other(); the natural model lists them, either answer is
    accepted).
    """
    add = {p for p in I if p not in H}
    delete = {p for p in H if p not in I}
    modify = {p for p in I if p in H and tuple(H[p][:2]) != tuple(I[p][:2])}
    unstaged = {p for p in I if p not in W or tuple(W[p][:2]) != tuple(I[p][:2])}
    untracked_all = {p for p in W if p not in I}
    isorted = sorted(I)
    normal = set()
    suppressed = set()
    for p in untracked_all:
        parts = p.split(b"/")
        rep = p
        for k in range(1, len(parts)):
            d = b"/".join(parts[:k])
            if not has_prefix(isorted, d + b"/"):
                rep = d + b"/"
                if d in I:
                    suppressed.add(rep)
                break
        normal.add(rep)
    return dict(add=add, delete=delete, modify=modify, unstaged=unstaged, untracked_all=untracked_all,
                untracked_normal=normal, normal_suppressed=suppressed)


def git_status(repo_dir, mode: str):
    """Parse ``git status --porcelain=v1 -z --no-renames --untracked-files=<mode>`` into the same sets."""
    out = cgit.out(["status", "--porcelain=v1", "-z", "--no-renames", "--untracked-files=" + mode], cwd=repo_dir)
    res = dict(add=set(), delete=set(), modify=set(), unstaged=set(), untracked=set())
    for rec in out.split(b"\0"):
        if not rec:
            continue
        if len(rec) < 4 or rec[2:3] != b" ":
            raise HarnessError(f"cannot parse git status record {rec!r}")
        x, y, path = rec[0:1], rec[1:2], rec[3:]
        if x == b"?" and y == b"?":
            res["untracked"].add(path)
            continue
        if x == b"A":
            res["add"].add(path)
        elif x == b"D":
            res["delete"].add(path)
        elif x in (b"M", b"T"):
            res["modify"].add(path)
        elif x != b" ":
            raise HarnessError(f"unexpected git status code {rec!r}")
        if y in (b"M", b"T", b"D"):
            res["unstaged"].add(path)
        elif y != b" ":
            raise HarnessError(f"unexpected git status code {rec!r}")
    return res


# ---------------------------------------------------------------------------
# self-test


def selftest(scratch_dir: str):
    """The id functions against git mktree / hash-object; the status model and parser against a fixed scenario."""
    d = os.path.join(scratch_dir, "c18-selftest")
    os.mkdir(d)
    cgit.init(d)
    for k, v in (("core.filemode", "true"), ("core.symlinks", "true")):
        cgit.git(["config", k, v], cwd=d)
    datas = {b"a": b"hello\n", b"x.sh": b"#!/bin/sh\n", b"d/f": b"", b"d.x": b"1", b"d-": b"2", b"l": b"a", b"q\"u\no\xff": b"z"}
    modes = {b"a": REG, b"x.sh": EXE, b"d/f": REG, b"d.x": REG, b"d-": REG, b"l": LNK, b"q\"u\no\xff": REG}
    bd = os.fsencode(d)
    for p, data in datas.items():
        full = os.path.join(bd, p)
        os.makedirs(os.path.dirname(full), exist_ok=True)
        if modes[p] == LNK:
            os.symlink(data, full)
        else:
            with open(full, "wb") as f:
                f.write(data)
            os.chmod(full, 0o755 if modes[p] == EXE else 0o644)
    listing = {p: (modes[p], blob_sha(datas[p])) for p in datas}
    got = cgit.out(["hash-object", "--stdin"], cwd=d, input=b"hello\n").strip()
    if got != blob_sha(b"hello\n"):
        raise HarnessError("blob_sha self-test failed")
    cgit.git(["add", "-A"], cwd=d)
    if read_index(d) != listing:
        raise HarnessError(f"read_index/scan self-test failed: {read_index(d)!r} != {listing!r}")
    wt = cgit.out(["write-tree"], cwd=d).strip()
    if wt != tree_id(listing):
        raise HarnessError(f"tree_id self-test failed: model {tree_id(listing)!r} git {wt!r}")
    if tree_id({}) != b"4b825dc642cb6eb9a060e54bf8d69288fbee4904":
        raise HarnessError("empty tree id self-test failed")
    W, dirs = scan_workdir(bd)
    if {p: v[:2] for p, v in W.items()} != listing or dirs != {b"d"}:
        raise HarnessError("scan_workdir self-test failed")
    cgit.git(["commit", "-q", "-m", "m"], cwd=d)
    if read_tree(d) != listing:
        raise HarnessError("read_tree self-test failed")
    # a scenario with every status class
    os.chmod(os.path.join(bd, b"a"), 0o755)  # mode-only change
    os.unlink(os.path.join(bd, b"l"))
    with open(os.path.join(bd, b"l"), "wb") as f:  # type change, same bytes
        f.write(b"a")
    os.unlink(os.path.join(bd, b"d/f"))
    os.rmdir(os.path.join(bd, b"d"))
    with open(os.path.join(bd, b"d"), "wb") as f:  # directory replaced by a file
        f.write(b"d")
    os.unlink(os.path.join(bd, b"d-"))
    os.mkdir(os.path.join(bd, b"d-"))  # file replaced by a directory with content
    with open(os.path.join(bd, b"d-/z"), "wb") as f:
        f.write(b"z")
    os.makedirs(os.path.join(bd, b"n/m"))
    with open(os.path.join(bd, b"n/m/u"), "wb") as f:
        f.write(b"u")
    os.mkdir(os.path.join(bd, b"empty"))
    with open(os.path.join(bd, b"d.x"), "wb") as f:
        f.write(b"22")
    cgit.git(["add", "d.x"], cwd=d)
    cgit.git(["rm", "-q", "--cached", "x.sh"], cwd=d)
    with open(os.path.join(bd, b"new"), "wb") as f:
        f.write(b"n")
    cgit.git(["add", "new"], cwd=d)
    H, I = read_tree(d), read_index(d)
    W, _ = scan_workdir(bd)
    exp = expected_status(H, I, W)
    want = dict(add={b"new"}, delete={b"x.sh"}, modify={b"d.x"}, unstaged={b"a", b"l", b"d/f", b"d-"},
                untracked_all={b"x.sh", b"d", b"d-/z", b"n/m/u"}, untracked_normal={b"x.sh", b"d", b"d-/", b"n/"},
                normal_suppressed={b"d-/"})
    if exp != want:
        raise HarnessError(f"expected_status self-test failed: {exp!r}")
    for mode in ("all", "normal"):
        g = git_status(d, mode)
        for k in ("add", "delete", "modify", "unstaged"):
            if g[k] != exp[k]:
                raise HarnessError(f"status model disagrees with git ({mode}, {k}): {g[k]!r} != {exp[k]!r}")
        eu = exp["untracked_all"] if mode == "all" else exp["untracked_normal"] - exp["normal_suppressed"]
        if g["untracked"] != eu:
            raise HarnessError(f"status model disagrees with git ({mode}, untracked): {g['untracked']!r} != {eu!r}")
    import shutil

    shutil.rmtree(d)
