"""C05 wire-level reference code: pkt-line framing, a raw upload-pack client, pack -> object-id resolution.

Written from Documentation/gitprotocol-pack.txt, gitprotocol-common.txt and
gitformat-pack.txt; uses packfmt.parse_pack / patch_delta (also independent of
dulwich).
"""

from __future__ import annotations

import hashlib
import socket

from . import packfmt

FLUSH = None


class WireError(Exception):
    pass


def pkt(payload) -> bytes:
    if payload is None:
        return b"0000"
    if len(payload) > 65516:
        raise WireError("pkt too long")
    return b"%04x" % (len(payload) + 4) + payload


def split_pkts(data: bytes):
    """-> (list of payloads (None = flush, b'\\1' delim as ('delim',)), rest) ; stops at malformed / truncated data."""
    out = []
    pos = 0
    n = len(data)
    while pos + 4 <= n:
        try:
            ln = int(data[pos : pos + 4], 16)
        except ValueError:
            break
        if ln == 0:
            out.append(None)
            pos += 4
        elif ln < 4:
            out.append(("special", ln))
            pos += 4
        else:
            if pos + ln > n:
                break
            out.append(data[pos + 4 : pos + ln])
            pos += ln
    return out, data[pos:]


# ---------------------------------------------------------------------------
# pack -> ids


def _oid(t, d):
    return hashlib.sha1(t + b" " + str(len(d)).encode() + b"\0" + d).hexdigest().encode()


def resolve_pack(data: bytes, external):
    """Parse a pack stream and compute the id of every object in it.

    ``external(hexid) -> (type_name, bytes) | None`` is the model's knowledge of object contents (the whole
    universe of a case); it supplies the bases of REF deltas.  A REF delta whose base id is not among the
    objects of the pack makes the pack *thin*.
    Returns dict(objs={hexid: (type, data)}, thin_bases=set(hexid), ndeltas, nobjects, dup).
    Raises ValueError / packfmt.DeltaError on a malformed pack or an unresolvable base.
    """
    entries = packfmt.parse_pack(data)
    by_off = {e[0]: n for n, e in enumerate(entries)}
    full = {}  # entry index -> (type_name, bytes)
    idx_by_id = {}
    pending = []
    for n, (off, tnum, size, payload, extra) in enumerate(entries):
        if tnum in packfmt.TYPE_NAMES:
            t = packfmt.TYPE_NAMES[tnum]
            full[n] = (t, payload)
            idx_by_id.setdefault(_oid(t, payload), n)
        elif tnum in (packfmt.OBJ_OFS_DELTA, packfmt.OBJ_REF_DELTA):
            pending.append(n)
        else:
            raise ValueError(f"bad object type {tnum}")
    ndeltas = len(pending)
    ref_bases = set()
    while pending:
        still = []
        for n in pending:
            off, tnum, size, payload, extra = entries[n]
            if tnum == packfmt.OBJ_OFS_DELTA:
                b = by_off.get(extra)
                if b is None or b >= n:
                    raise ValueError("ofs-delta base offset does not name an earlier entry")
                base = full.get(b)
            else:
                hx = extra.hex().encode()
                ref_bases.add(hx)
                b = idx_by_id.get(hx)
                base = full.get(b) if b is not None else external(hx)
            if base is None:
                still.append(n)
                continue
            t, bdata = base
            out = packfmt.patch_delta(bdata, payload)
            full[n] = (t, out)
            idx_by_id.setdefault(_oid(t, out), n)
        if len(still) == len(pending):
            raise ValueError("unresolvable delta base(s): " + ", ".join(
                (entries[n][4].hex() if entries[n][1] == packfmt.OBJ_REF_DELTA else "ofs") for n in still[:4]))
        pending = still
    objs = {}
    for n in range(len(entries)):
        t, d = full[n]
        objs[_oid(t, d)] = (t, d)
    return dict(objs=objs, thin_bases=ref_bases - set(objs), ndeltas=ndeltas, nobjects=len(entries), dup=len(entries) - len(objs))


def split_packs(data: bytes, hash_len=20):
    """Split a byte string holding several pack streams back to back (GIT_TRACE_PACKFILE appends)."""
    import struct
    import zlib

    out = []
    pos = 0
    while pos < len(data):
        start = pos
        if data[pos : pos + 4] != b"PACK":
            raise ValueError("bad magic in concatenated pack stream")
        count = struct.unpack(">L", data[pos + 8 : pos + 12])[0]
        pos += 12
        for _ in range(count):
            c = data[pos]
            pos += 1
            t = (c >> 4) & 7
            while c & 0x80:
                c = data[pos]
                pos += 1
            if t == packfmt.OBJ_REF_DELTA:
                pos += hash_len
            elif t == packfmt.OBJ_OFS_DELTA:
                c = data[pos]
                pos += 1
                while c & 0x80:
                    c = data[pos]
                    pos += 1
            d = zlib.decompressobj()
            d.decompress(data[pos:])
            if not d.eof:
                raise ValueError("truncated zlib stream")
            pos = len(data) - len(d.unused_data)
        pos += hash_len
        out.append(data[start:pos])
    return out


# ---------------------------------------------------------------------------
# raw upload-pack conversation over a socket (protocol v0)


def _recv_all(sock, limit=64 << 20):
    chunks = []
    total = 0
    while True:
        try:
            b = sock.recv(65536)
        except (ConnectionResetError, BrokenPipeError):
            break
        if not b:
            break
        chunks.append(b)
        total += len(b)
        if total > limit:
            raise WireError("response too large")
    return b"".join(chunks)


def _read_pkt(sock, buf):
    """Read exactly one pkt from sock (buf: bytearray carry-over). Returns payload / None (flush) / EOF marker."""
    while len(buf) < 4:
        b = sock.recv(65536)
        if not b:
            return EOF
        buf += b
    try:
        ln = int(bytes(buf[:4]), 16)
    except ValueError:
        raise WireError(f"bad pkt length {bytes(buf[:4])!r}")
    if ln == 0:
        del buf[:4]
        return None
    if ln < 4:
        del buf[:4]
        return ("special", ln)
    while len(buf) < ln:
        b = sock.recv(65536)
        if not b:
            return EOF
        buf += b
    payload = bytes(buf[4:ln])
    del buf[:ln]
    return payload


class _Eof:
    def __repr__(self):
        return "EOF"


EOF = _Eof()


def raw_upload_pack(host, port, path, wants, haves, caps, *, done=True, flush_every=0, timeout=20.0, shallow=None):
    """One git:// upload-pack conversation written by hand.

    wants / haves: lists of hex ids (sent verbatim, in order).  Returns dict(
      advertised={name: id}, server_caps=set, acks=[...], pack=bytes|None, error=str|None, sideband=bool).
    The client sends every line up front (wants, flush, haves [flush every N], done), half-closes and reads
    to EOF: legal for a v0 server, which must answer whatever the client already wrote.
    """
    s = socket.create_connection((host, port), timeout=timeout)
    try:
        s.sendall(pkt(b"git-upload-pack " + path + b"\0host=" + host.encode() + b"\0"))
        buf = bytearray()
        adv = {}
        server_caps = set()
        first = True
        while True:
            p = _read_pkt(s, buf)
            if p is EOF:
                return dict(advertised=adv, server_caps=server_caps, acks=[], pack=None, error="eof-in-advertisement", sideband=False)
            if p is None:
                break
            if isinstance(p, tuple):
                raise WireError("unexpected special pkt in advertisement")
            line = p.rstrip(b"\n")
            if line.startswith(b"ERR "):
                return dict(advertised=adv, server_caps=server_caps, acks=[], pack=None, error=line.decode("latin1"), sideband=False)
            if first:
                first = False
                if b"\0" in line:
                    line, c = line.split(b"\0", 1)
                    server_caps = set(c.split(b" "))
            i, name = line.split(b" ", 1)
            adv[name] = i
        if not wants:
            s.sendall(pkt(None))
            return dict(advertised=adv, server_caps=server_caps, acks=[], pack=None, error=None, sideband=False)
        out = []
        for n, w in enumerate(wants):
            out.append(pkt(b"want " + w + ((b" " + b" ".join(caps)) if n == 0 and caps else b"") + b"\n"))
        if shallow is not None:
            out.append(pkt(b"deepen %d\n" % shallow))
        out.append(pkt(None))
        for n, h in enumerate(haves):
            out.append(pkt(b"have " + h + b"\n"))
            if flush_every and (n + 1) % flush_every == 0:
                out.append(pkt(None))
        if done:
            out.append(pkt(b"done\n"))
        try:
            s.sendall(b"".join(out))
            s.shutdown(socket.SHUT_WR)
        except socket.timeout:
            raise
        except OSError:
            pass  # the server may have answered and closed before reading everything we wrote
        rest = bytes(buf) + _recv_all(s)
    finally:
        s.close()
    sideband = b"side-band-64k" in caps or b"side-band" in caps
    acks = []
    pack = None
    error = None
    pos = 0
    if shallow is not None:
        # shallow-update section terminated by a flush
        pkts, _ = split_pkts(rest)
        k = 0
        while k < len(pkts) and pkts[k] is not None and isinstance(pkts[k], bytes) and pkts[k].startswith((b"shallow ", b"unshallow ")):
            acks.append(pkts[k].rstrip(b"\n"))
            k += 1
    # ACK/NAK lines are pkts; then the pack either raw or in side-band pkts
    while True:
        if rest[pos : pos + 4] == b"PACK" and not sideband:
            pack = rest[pos:]
            break
        if pos + 4 > len(rest):
            break
        try:
            ln = int(rest[pos : pos + 4], 16)
        except ValueError:
            error = f"garbage in response at {pos}: {rest[pos:pos + 16]!r}"
            break
        if ln == 0:
            pos += 4
            if pack is not None:
                break
            continue
        if ln < 4 or pos + ln > len(rest):
            error = "truncated pkt"
            break
        payload = rest[pos + 4 : pos + ln]
        pos += ln
        if payload.startswith((b"ACK ", b"NAK", b"shallow ", b"unshallow ")) and pack is None:
            acks.append(payload.rstrip(b"\n"))
        elif payload.startswith(b"ERR "):
            error = payload.rstrip(b"\n").decode("latin1")
            break
        elif sideband and payload[:1] == b"\x01":
            pack = (pack or b"") + payload[1:]
        elif sideband and payload[:1] == b"\x02":
            pass
        elif sideband and payload[:1] == b"\x03":
            error = "sideband-fatal: " + payload[1:].decode("latin1")
            break
        else:
            error = f"unexpected pkt {payload[:40]!r}"
            break
    return dict(advertised=adv, server_caps=server_caps, acks=acks, pack=pack, error=error, sideband=sideband)
