"""Reference model of the git index file (versions 2, 3, 4; SHA-1 repositories).

Written from Documentation/gitformat-index.txt (gitformat-index(5)) and
gitformat-pack(5) ("offset encoding"), NOT from dulwich's code.  It is used by
vf/props/c11.py as the independent parser / writer and is self-tested against
C git in the check itself (byte identity with files git writes, and agreement
with `git ls-files --stage --debug -z`).

An entry is the plain tuple ``E``:

    (path, stage, ctime_s, ctime_ns, mtime_s, mtime_ns, dev, ino, mode, uid,
     gid, size, sha_hex, assume_valid, ext)

``ext`` is the 16 bit extended-flags word (0 when the entry has none).
"""

from __future__ import annotations

import hashlib
import struct
from collections import namedtuple

E = namedtuple(
    "E",
    "path stage ctime_s ctime_ns mtime_s mtime_ns dev ino mode uid gid size sha valid ext",
)

F_VALID = 0x8000
F_EXTENDED = 0x4000
F_STAGEMASK = 0x3000
F_NAMEMASK = 0x0FFF
X_SKIP_WORKTREE = 0x4000
X_INTENT_TO_ADD = 0x2000
X_KNOWN = X_SKIP_WORKTREE | X_INTENT_TO_ADD


class FormatError(Exception):
    """The bytes are not a well-formed index.  ``kind`` is a short stable key."""

    def __init__(self, kind, msg):
        super().__init__(f"{kind}: {msg}")
        self.kind = kind
        self.msg = msg


# ---------------------------------------------------------------------------
# "offset encoding" of gitformat-pack(5): big-endian base-128 groups, MSB set on
# all but the last byte, and for n >= 2 bytes the value is offset by
# 2^7 + 2^14 + ... + 2^(7*(n-1)).


def encode_offset_varint(n: int) -> bytes:
    if n < 0:
        raise ValueError(n)
    out = [n & 0x7F]
    n >>= 7
    while n:
        n -= 1
        out.append(0x80 | (n & 0x7F))
        n >>= 7
    return bytes(reversed(out))


def decode_offset_varint(data: bytes, pos: int):
    if pos >= len(data):
        raise FormatError("entry-truncated", "varint runs past end of file")
    c = data[pos]
    pos += 1
    val = c & 0x7F
    while c & 0x80:
        if pos >= len(data):
            raise FormatError("entry-truncated", "varint runs past end of file")
        val += 1
        c = data[pos]
        pos += 1
        val = (val << 7) + (c & 0x7F)
    return val, pos


def decode_leb128(data: bytes, pos: int):
    """The *wrong* encoding (little-endian base 128); only used to diagnose."""
    val = 0
    shift = 0
    while True:
        if pos >= len(data):
            raise FormatError("entry-truncated", "varint runs past end of file")
        c = data[pos]
        pos += 1
        val |= (c & 0x7F) << shift
        shift += 7
        if not c & 0x80:
            return val, pos


# ---------------------------------------------------------------------------


def sort_key(e):
    return (e.path, e.stage)


def build_index(version, entries, extensions=(), skip_hash=False, sort=True) -> bytes:
    """Serialise.  ``entries``: iterable of E; ``extensions``: [(sig4, data)]."""
    if version not in (2, 3, 4):
        raise ValueError(version)
    ents = sorted(entries, key=sort_key) if sort else list(entries)
    out = [b"DIRC", struct.pack(">LL", version, len(ents))]
    prev = b""
    for e in ents:
        if b"\0" in e.path:
            raise ValueError("NUL in path")
        flags = min(len(e.path), F_NAMEMASK) | (e.stage << 12)
        if e.valid:
            flags |= F_VALID
        if e.ext:
            if version < 3:
                raise ValueError("extended flags need version >= 3")
            flags |= F_EXTENDED
        head = struct.pack(
            ">LLLLLLLLLL20sH",
            e.ctime_s, e.ctime_ns, e.mtime_s, e.mtime_ns, e.dev, e.ino, e.mode, e.uid, e.gid, e.size,
            bytes.fromhex(e.sha.decode("ascii") if isinstance(e.sha, bytes) else e.sha),
            flags,
        )
        if e.ext:
            head += struct.pack(">H", e.ext)
        if version == 4:
            common = 0
            m = min(len(prev), len(e.path))
            while common < m and prev[common] == e.path[common]:
                common += 1
            body = encode_offset_varint(len(prev) - common) + e.path[common:] + b"\0"
            out.append(head + body)
        else:
            n = len(head) + len(e.path)
            pad = 8 - (n % 8)  # 1..8 NULs
            out.append(head + e.path + b"\0" * pad)
        prev = e.path
    for sig, data in extensions:
        if len(sig) != 4:
            raise ValueError(sig)
        out.append(sig + struct.pack(">L", len(data)) + data)
    body = b"".join(out)
    return body + (b"\0" * 20 if skip_hash else hashlib.sha1(body).digest())


Parsed = namedtuple("Parsed", "version entries extensions trailer remove_lens")
# trailer: "sha1" (correct), "zero" (20 NUL bytes, skipHash)


def parse_index(data: bytes, varint="offset") -> Parsed:
    """Strict parser.  Raises FormatError on anything the format does not allow."""
    if len(data) < 12 + 20:
        raise FormatError("header", f"file too short ({len(data)} bytes)")
    if data[:4] != b"DIRC":
        raise FormatError("header", f"bad signature {data[:4]!r}")
    version, count = struct.unpack(">LL", data[4:12])
    if version not in (2, 3, 4):
        raise FormatError("header", f"version {version}")
    end = len(data) - 20
    pos = 12
    entries = []
    remove_lens = []
    prev = b""
    decode = decode_offset_varint if varint == "offset" else decode_leb128
    for i in range(count):
        start = pos
        if pos + 62 > end:
            raise FormatError("entry-truncated", f"entry {i} starts at {pos}, content ends at {end}")
        (cs, cn, ms, mn, dev, ino, mode, uid, gid, size, sha, flags) = struct.unpack(">LLLLLLLLLL20sH", data[pos:pos + 62])
        pos += 62
        ext = 0
        if flags & F_EXTENDED:
            if version < 3:
                raise FormatError("extended-flag-in-v2", f"entry {i}: extended flag set in a version 2 index")
            if pos + 2 > end:
                raise FormatError("entry-truncated", f"entry {i}")
            (ext,) = struct.unpack(">H", data[pos:pos + 2])
            pos += 2
            if ext & ~X_KNOWN:
                raise FormatError("extended-flags-unknown-bits", f"entry {i}: extended flags {ext:#06x}")
        namelen = flags & F_NAMEMASK
        if version == 4:
            n, pos = decode(data, pos)
            nul = data.find(b"\0", pos, end)
            if nul < 0:
                raise FormatError("entry-truncated", f"entry {i}: unterminated v4 name")
            if n > len(prev):
                raise FormatError("v4-remove-len", f"entry {i}: remove {n} bytes from previous name of {len(prev)} bytes")
            path = prev[: len(prev) - n] + data[pos:nul]
            pos = nul + 1
            remove_lens.append(n)
        else:
            if namelen < F_NAMEMASK:
                path = data[pos:pos + namelen]
                if pos + namelen > end:
                    raise FormatError("entry-truncated", f"entry {i}: name")
                if b"\0" in path:
                    raise FormatError("name-length-field", f"entry {i}: NUL inside the {namelen} name bytes")
                pos += namelen
            else:
                nul = data.find(b"\0", pos, end)
                if nul < 0:
                    raise FormatError("entry-truncated", f"entry {i}: unterminated long name")
                path = data[pos:nul]
                pos = nul
            pad = 8 - ((pos - start) % 8)
            if pos + pad > end:
                raise FormatError("entry-truncated", f"entry {i}: padding")
            if data[pos:pos + pad] != b"\0" * pad:
                raise FormatError("padding", f"entry {i}: expected {pad} NUL bytes, found {data[pos:pos + pad]!r}")
            pos += pad
        if namelen != min(len(path), F_NAMEMASK):
            raise FormatError(
                "name-length-field",
                f"entry {i}: name length field {namelen:#x} for a name of {len(path)} bytes (want {min(len(path), F_NAMEMASK):#x})",
            )
        if not path:
            raise FormatError("empty-name", f"entry {i}")
        e = E(path, (flags & F_STAGEMASK) >> 12, cs, cn, ms, mn, dev, ino, mode, uid, gid, size,
              sha.hex().encode("ascii"), bool(flags & F_VALID), ext)
        if entries:
            p = entries[-1]
            if (p.path, p.stage) >= (e.path, e.stage):
                kind = "duplicate-entry" if (p.path, p.stage) == (e.path, e.stage) else "order"
                raise FormatError(kind, f"entry {i}: {(p.path[-40:], p.stage)!r} is followed by {(e.path[-40:], e.stage)!r}")
            if p.path == e.path and p.stage == 0:
                raise FormatError("merged-and-unmerged", f"entry {i}: stage {e.stage} next to stage 0 for {e.path[-40:]!r}")
        entries.append(e)
        prev = path
    extensions = []
    while pos < end:
        if pos + 8 > end:
            raise FormatError("extension-truncated", f"{end - pos} stray bytes before the trailer")
        sig = data[pos:pos + 4]
        (n,) = struct.unpack(">L", data[pos + 4:pos + 8])
        if pos + 8 + n > end:
            raise FormatError("extension-truncated", f"extension {sig!r} claims {n} bytes, {end - pos - 8} available")
        extensions.append((sig, data[pos + 8:pos + 8 + n]))
        pos += 8 + n
    trailer = data[end:]
    if trailer == hashlib.sha1(data[:end]).digest():
        t = "sha1"
    elif trailer == b"\0" * 20:
        t = "zero"
    else:
        raise FormatError("trailer", f"trailer {trailer.hex()} is neither the SHA-1 of the content nor null")
    return Parsed(version, entries, extensions, t, remove_lens)


def remove_lens_of(paths):
    """v4 strip lengths of a sorted path list (for labelling generated cases)."""
    out = []
    prev = b""
    for p in paths:
        common = 0
        m = min(len(prev), len(p))
        while common < m and prev[common] == p[common]:
            common += 1
        out.append(len(prev) - common)
        prev = p
    return out


# ---------------------------------------------------------------------------
# `git ls-files --stage --debug -z` parser


def parse_ls_files_debug(out: bytes):
    """Returns a list of E as C git sees them (flags decoded from the in-core word)."""
    res = []
    pos = 0
    n = len(out)
    while pos < n:
        # "%06o %s %d\t" : mode, 40 hex, stage
        tab = out.index(b"\t", pos)
        mode_s, sha, stage = out[pos:tab].split(b" ")
        nul = out.index(b"\0", tab + 1)
        path = out[tab + 1:nul]
        pos = nul + 1
        vals = {}
        for _ in range(5):
            nl = out.index(b"\n", pos)
            line = out[pos:nl]
            pos = nl + 1
            for part in line.strip().split(b"\t"):
                k, v = part.split(b": ", 1)
                vals[k] = v
        cs, cn = vals[b"ctime"].split(b":")
        ms, mn = vals[b"mtime"].split(b":")
        fl = int(vals[b"flags"], 16)
        # in-core ce_flags: on-disk flags with the name length masked out, plus
        # the extended word shifted left by 16
        ext = (fl >> 16) & 0xFFFF
        if ((fl & F_STAGEMASK) >> 12) != int(stage):
            raise ValueError(f"ls-files stage {stage!r} disagrees with flags {fl:#x}")
        res.append(E(path, int(stage), int(cs), int(cn), int(ms), int(mn), int(vals[b"dev"]), int(vals[b"ino"]),
                     int(mode_s, 8), int(vals[b"uid"]), int(vals[b"gid"]), int(vals[b"size"]), sha,
                     bool(fl & F_VALID), ext & X_KNOWN))
    return res
