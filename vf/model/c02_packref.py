"""C02 reference side: independent readers/writers for .pack and .idx files.

Written from Documentation/gitformat-pack.txt (pack entries, OFS/REF deltas,
idx v1 and v2 layouts) on top of vf.model.packfmt; nothing here imports
dulwich.  The "v3" index is dulwich's own layout (git 2.39 has no v3 reader):
v2 with two extra header words (hash format id, shortened-oid length), so the
v3 reader below is a structural reader of *that* layout, not a git format.
"""

from __future__ import annotations

import hashlib
import struct
import zlib

from . import packfmt
from .packfmt import OBJ_OFS_DELTA, OBJ_REF_DELTA, TYPE_NAMES, patch_delta

IDX_MAGIC = b"\377tOc"
ALGO = {20: "sha1", 32: "sha256"}


class FormatError(Exception):
    """The bytes are not a well-formed pack / index (what, short)."""

    def __init__(self, kind, detail=""):
        super().__init__(f"{kind}: {detail}" if detail else kind)
        self.kind = kind


def oid(type_num: int, data: bytes, hash_len=20) -> bytes:
    return packfmt.obj_id(TYPE_NAMES[type_num], data, ALGO[hash_len])


# ---------------------------------------------------------------------------
# delta construction from explicit operations (own encoder, no search)


def enc_copy(off: int, size: int) -> bytes:
    """One copy op, 1 <= size <= 0x10000 (0x10000 is spelled as size 0)."""
    assert 1 <= size <= 0x10000 and 0 <= off < (1 << 32)
    if size == 0x10000:
        size = 0
    out = bytearray([0x80])
    for i in range(4):
        b = (off >> (8 * i)) & 0xFF
        if b:
            out[0] |= 1 << i
            out.append(b)
    for i in range(2):
        b = (size >> (8 * i)) & 0xFF
        if b:
            out[0] |= 0x10 << i
            out.append(b)
    return bytes(out)


def make_delta(base: bytes, ops):
    """ops: [("c", off, n) | ("i", bytes)] -> (delta bytes, target bytes).  Copies longer than 64 KiB are split."""
    body = bytearray()
    target = bytearray()
    for op in ops:
        if op[0] == "c":
            _, off, n = op
            assert 0 <= off and off + n <= len(base) and n > 0
            target += base[off : off + n]
            while n:
                k = min(n, 0x10000)
                body += enc_copy(off, k)
                off += k
                n -= k
        else:
            data = op[1]
            target += data
            for i in range(0, len(data), 127):
                piece = data[i : i + 127]
                body.append(len(piece))
                body += piece
    delta = packfmt.enc_varint(len(base)) + packfmt.enc_varint(len(target)) + bytes(body)
    return delta, bytes(target)


# ---------------------------------------------------------------------------
# pack reader with delta resolution


class Entry:
    __slots__ = ("offset", "end", "pack_type", "size", "payload", "base", "type", "data", "name", "crc", "depth")

    def __repr__(self):
        return f"Entry(off={self.offset}, pt={self.pack_type}, type={self.type}, name={self.name.hex() if self.name else None}, depth={self.depth})"


def read_pack(data: bytes, hash_len=20, external=None):
    """Parse and fully resolve a pack.

    ``external``: {id: (type_num, bytes)} of objects a thin pack may refer to.
    Returns (entries in pack order, trailer).  Raises FormatError.
    """
    try:
        raw = packfmt.parse_pack(data, hash_len)
    except (ValueError, IndexError, zlib.error, struct.error) as e:
        raise FormatError("pack-unparsable", str(e))
    entries = []
    for k, (start, type_num, size, payload, extra) in enumerate(raw):
        e = Entry()
        e.offset = start
        e.end = raw[k + 1][0] if k + 1 < len(raw) else len(data) - hash_len
        e.pack_type = type_num
        e.size = size
        e.payload = payload
        e.base = extra
        e.type = e.data = e.name = None
        e.depth = 0
        e.crc = zlib.crc32(data[e.offset : e.end]) & 0xFFFFFFFF
        if type_num not in (1, 2, 3, 4, OBJ_OFS_DELTA, OBJ_REF_DELTA):
            raise FormatError("pack-bad-type", f"type {type_num} at {start}")
        entries.append(e)
    by_off = {e.offset: e for e in entries}
    # resolve: repeat until no progress (REF bases may come later in the pack)
    by_name = {}
    pending = list(entries)
    external = external or {}
    while pending:
        rest = []
        for e in pending:
            if e.pack_type in (1, 2, 3, 4):
                e.type, e.data = e.pack_type, e.payload
            else:
                if e.pack_type == OBJ_OFS_DELTA:
                    b = by_off.get(e.base)
                    if b is None or e.base >= e.offset:
                        raise FormatError("pack-ofs-base-not-an-entry", f"entry at {e.offset} -> {e.base}")
                    if b.data is None:
                        rest.append(e)
                        continue
                    btype, bdata, bdepth = b.type, b.data, b.depth
                else:
                    b = by_name.get(e.base)
                    if b is not None:
                        btype, bdata, bdepth = b.type, b.data, b.depth
                    elif e.base in external:
                        btype, bdata = external[e.base]
                        bdepth = 0
                    else:
                        rest.append(e)
                        continue
                try:
                    e.data = patch_delta(bdata, e.payload)
                except packfmt.DeltaError as x:
                    raise FormatError("pack-bad-delta", f"entry at {e.offset}: {x}")
                e.type = btype
                e.depth = bdepth + 1
            e.name = oid(e.type, e.data, hash_len)
            by_name.setdefault(e.name, e)
        if len(rest) == len(pending):
            raise FormatError("pack-unresolvable-delta", f"{len(rest)} entries, first at {rest[0].offset}")
        pending = rest
    return entries, data[-hash_len:]


def mapping_of(entries):
    return {e.name: (e.type, e.data) for e in entries}


# ---------------------------------------------------------------------------
# idx reader / writer


def write_idx(entries, pack_checksum: bytes, version=2, hash_len=20) -> bytes:
    """entries: iterable of (name, offset, crc32).  The way git writes it (v1, v2)."""
    ents = sorted(entries)
    fan = [0] * 256
    for name, _, _ in ents:
        fan[name[0]] += 1
    for i in range(1, 256):
        fan[i] += fan[i - 1]
    out = bytearray()
    if version == 1:
        out += struct.pack(">256L", *fan)
        for name, off, _ in ents:
            out += struct.pack(">L", off) + name
    elif version == 2:
        out += IDX_MAGIC + struct.pack(">L", 2) + struct.pack(">256L", *fan)
        for name, _, _ in ents:
            out += name
        for _, _, crc in ents:
            out += struct.pack(">L", crc)
        large = []
        for _, off, _ in ents:
            if off >= 1 << 31:
                out += struct.pack(">L", 0x80000000 | len(large))
                large.append(off)
            else:
                out += struct.pack(">L", off)
        for off in large:
            out += struct.pack(">Q", off)
    else:
        raise ValueError(version)
    out += pack_checksum
    out += hashlib.new(ALGO[hash_len], bytes(out)).digest()
    return bytes(out)


def read_idx(data: bytes, hash_len=20):
    """-> dict(version, entries=[(name, offset, crc|None)] in file order, pack_checksum, nlarge).  Strict."""
    algo = ALGO[hash_len]
    if len(data) < 1024 + 2 * hash_len:
        raise FormatError("idx-too-short", str(len(data)))
    if hashlib.new(algo, data[:-hash_len]).digest() != data[-hash_len:]:
        raise FormatError("idx-bad-trailer")
    pack_checksum = data[-2 * hash_len : -hash_len]
    if data[:4] == IDX_MAGIC:
        (version,) = struct.unpack(">L", data[4:8])
        if version == 2:
            pos = 8
        elif version == 3:
            hash_format, short_len = struct.unpack(">LL", data[8:16])
            if hash_format != {20: 1, 32: 2}[hash_len]:
                raise FormatError("idx-v3-hash-format", str(hash_format))
            if short_len != hash_len:
                raise FormatError("idx-v3-shortened-len", str(short_len))
            pos = 16
        else:
            raise FormatError("idx-version", str(version))
    else:
        version = 1
        pos = 0
    fan = struct.unpack(">256L", data[pos : pos + 1024])
    pos += 1024
    if any(fan[i] > fan[i + 1] for i in range(255)):
        raise FormatError("idx-fanout-not-monotone")
    n = fan[255]
    ents = []
    nlarge = 0
    if version == 1:
        if hash_len != 20:
            raise FormatError("idx-v1-not-sha1")
        if len(data) != 1024 + n * 24 + 40:
            raise FormatError("idx-size", f"{len(data)} bytes for {n} entries (v1)")
        for i in range(n):
            (off,) = struct.unpack(">L", data[pos : pos + 4])
            ents.append((data[pos + 4 : pos + 24], off, None))
            pos += 24
    else:
        names = [data[pos + i * hash_len : pos + (i + 1) * hash_len] for i in range(n)]
        pos += n * hash_len
        if pos + 8 * n > len(data) - 2 * hash_len:
            raise FormatError("idx-size", f"{len(data)} bytes for {n} entries")
        crcs = struct.unpack(f">{n}L", data[pos : pos + 4 * n])
        pos += 4 * n
        offs32 = struct.unpack(f">{n}L", data[pos : pos + 4 * n])
        pos += 4 * n
        rest = len(data) - 2 * hash_len - pos
        if rest % 8:
            raise FormatError("idx-size", "large offset table is not a multiple of 8")
        nlarge = rest // 8
        large = struct.unpack(f">{nlarge}Q", data[pos : pos + rest])
        used = []
        for i in range(n):
            o = offs32[i]
            if o & 0x80000000:
                k = o & 0x7FFFFFFF
                if k >= nlarge:
                    raise FormatError("idx-large-index-out-of-range", f"{k} >= {nlarge}")
                used.append(k)
                o = large[k]
                if o < 1 << 31:
                    raise FormatError("idx-large-entry-for-small-offset", str(o))
            ents.append((names[i], o, crcs[i]))
        if sorted(used) != list(range(nlarge)):
            raise FormatError("idx-large-table-not-exactly-used", f"used {sorted(used)} of {nlarge}")
    for i in range(n - 1):
        if not ents[i][0] < ents[i + 1][0]:
            raise FormatError("idx-names-not-strictly-increasing", f"at {i}")
    cnt = [0] * 256
    for name, _, _ in ents:
        cnt[name[0]] += 1
    acc = 0
    for i in range(256):
        acc += cnt[i]
        if fan[i] != acc:
            raise FormatError("idx-fanout-wrong", f"fan[{i}]={fan[i]} expected {acc}")
    return dict(version=version, entries=ents, pack_checksum=pack_checksum, nlarge=nlarge)
