"""C19 reference models, written from git's format documentation only.

* pkt-line framing      Documentation/technical/protocol-common.txt ("pkt-line Format"):
      pkt-line = data-pkt / flush-pkt ; data-pkt = pkt-len pkt-payload ; pkt-len = 4*(HEXDIG)
      "The maximum length of a pkt-line's data component is 65516 bytes.  Implementations MUST NOT send
      pkt-line whose length exceeds 65520 (65516 bytes of payload + 4 bytes of length data)."
      0000 flush-pkt; protocol-v2.txt adds 0001 delim-pkt and 0002 response-end-pkt; 0003 is not a packet.
* side-band-64k         protocol-capabilities.txt: first payload byte is the band (1 data, 2 progress, 3 error),
      a packet carries at most 65519 bytes after it (65520 including the length header rule above => 65515 data).
* pack stream           pack-format.txt: "PACK", version 2, count, entries (type/size varint, [ofs|ref base],
      zlib stream), SHA-1 trailer over everything before it.

Nothing in here imports dulwich.
"""

from __future__ import annotations

import binascii
import hashlib
import zlib

MAX_PKT_LEN = 65520
MAX_PAYLOAD = MAX_PKT_LEN - 4  # 65516
MAX_SIDEBAND_DATA = MAX_PKT_LEN - 5  # 65515

DELIM = "delim"  # 0001
RESP_END = "response-end"  # 0002

_HEX = frozenset(b"0123456789abcdefABCDEF")


def encode(item) -> bytes:
    """Reference encoder: None -> flush, DELIM/RESP_END -> specials, bytes -> data-pkt."""
    if item is None:
        return b"0000"
    if item == DELIM:
        return b"0001"
    if item == RESP_END:
        return b"0002"
    n = len(item) + 4
    if n > MAX_PKT_LEN:
        raise ValueError("payload does not fit one pkt-line")
    return b"%04x" % n + bytes(item)


def encode_seq(seq) -> bytes:
    return b"".join(encode(x) for x in seq)


class Event:
    """One frame found by the reference parser."""

    __slots__ = ("kind", "payload", "start", "end")

    def __init__(self, kind, payload, start, end):
        self.kind = kind  # data | empty | flush | delim | resp-end | big
        self.payload = payload  # bytes for data/empty/big, else None
        self.start = start
        self.end = end

    def value(self):
        """What a pkt-line reader hands to its caller for this frame."""
        return self.payload  # None for the special packets

    def __repr__(self):
        return f"Event({self.kind},{self.start}..{self.end})"


def parse(stream: bytes):
    """Reference framer.

    Returns (events, terminal) where terminal is one of
      ("eof", off)                      stream ends on a frame boundary
      ("short-prefix", off)             1..3 bytes left
      ("bad-prefix", off)               four bytes that are not all hex digits
      ("reserved", off)                 0003
      ("short-body", off, declared)     length prefix promises more than there is
    Frames whose declared length is above 65520 are reported with kind "big":
    a sender must never produce them, a receiver may take or refuse them.
    """
    events = []
    pos = 0
    n = len(stream)
    while True:
        if pos == n:
            return events, ("eof", pos)
        if n - pos < 4:
            return events, ("short-prefix", pos)
        pre = stream[pos : pos + 4]
        if not _HEX.issuperset(pre):
            return events, ("bad-prefix", pos)
        ln = int(pre, 16)
        if ln == 0:
            events.append(Event("flush", None, pos, pos + 4))
            pos += 4
        elif ln == 1:
            events.append(Event("delim", None, pos, pos + 4))
            pos += 4
        elif ln == 2:
            events.append(Event("resp-end", None, pos, pos + 4))
            pos += 4
        elif ln == 3:
            return events, ("reserved", pos)
        else:
            if pos + ln > n:
                return events, ("short-body", pos, ln)
            body = stream[pos + 4 : pos + ln]
            kind = "big" if ln > MAX_PKT_LEN else ("empty" if ln == 4 else "data")
            events.append(Event(kind, body, pos, pos + ln))
            pos += ln


def strictly_valid(events, terminal) -> bool:
    """True iff a conforming sender may have produced the stream."""
    return terminal[0] == "eof" and all(e.kind != "big" for e in events)


def items_of(events):
    """Payload sequence in the vocabulary of ``encode``."""
    out = []
    for e in events:
        if e.kind == "flush":
            out.append(None)
        elif e.kind == "delim":
            out.append(DELIM)
        elif e.kind == "resp-end":
            out.append(RESP_END)
        else:
            out.append(e.payload)
    return out


# ---------------------------------------------------------------------------
# deterministic payload material


def fill(n: int, kind: str, seed: int) -> bytes:
    """n bytes of the named texture (deterministic; no RNG)."""
    if n <= 0:
        return b""
    if kind == "zero":
        return bytes(n)
    if kind == "x":
        return b"x" * n
    if kind == "pkt":  # looks like pkt-line prefixes: a decoder that loses sync re-parses payload
        unit = [b"0000", b"0004", b"0001", b"0005a", b"fff0", b"0006a\n"][seed % 6]
        return (unit * (n // len(unit) + 1))[:n]
    if kind == "nl":
        return (b"\n" * n) if seed % 2 else (b"a" * (n - 1) + b"\n")
    if kind == "pat":
        unit = hashlib.sha1(b"pat%d" % seed).digest()[: 1 + seed % 7]
        return (unit * (n // len(unit) + 1))[:n]
    if kind == "rnd":
        return hashlib.shake_128(b"rnd%d" % seed).digest(n)
    raise ValueError(kind)


FILLS = ("zero", "x", "pkt", "nl", "pat", "rnd")


# ---------------------------------------------------------------------------
# minimal pack stream writer (pack-format.txt), independent of dulwich


def _type_size_header(type_num: int, size: int) -> bytes:
    c = (type_num << 4) | (size & 0x0F)
    size >>= 4
    out = bytearray()
    while size:
        out.append(c | 0x80)
        c = size & 0x7F
        size >>= 7
    out.append(c)
    return bytes(out)


def _ofs_varint(off: int) -> bytes:
    out = [off & 0x7F]
    off >>= 7
    while off:
        off -= 1
        out.insert(0, 0x80 | (off & 0x7F))
        off >>= 7
    return bytes(out)


def build_pack(objs, hash_name="sha1"):
    """objs: list of (type_num, data, level, base) — base is None, an int (OFS_DELTA
    distance) or 20/32 raw bytes (REF_DELTA).  Returns (pack bytes, [entry dict])
    where an entry records offset, raw bytes crc32 and the expected fields."""
    out = bytearray(b"PACK" + (2).to_bytes(4, "big") + len(objs).to_bytes(4, "big"))
    entries = []
    for type_num, data, level, base in objs:
        off = len(out)
        raw = bytearray(_type_size_header(type_num, len(data)))
        if type_num == 6:
            raw += _ofs_varint(base)
        elif type_num == 7:
            raw += base
        co = zlib.compressobj(level)
        raw += co.compress(data) + co.flush()
        out += raw
        entries.append(dict(offset=off, type=type_num, data=bytes(data), base=base, crc32=binascii.crc32(bytes(raw)) & 0xFFFFFFFF))
    out += hashlib.new(hash_name, bytes(out)).digest()
    return bytes(out), entries


# ---------------------------------------------------------------------------
# git's packet trace escaping (pkt-line.c packet_trace): newlines dropped,
# 0x20..0x7e verbatim, everything else as backslash + octal of the signed char


def trace_escape(payload: bytes) -> bytes:
    out = bytearray()
    for c in payload:
        if c == 0x0A:
            continue
        if 0x20 <= c <= 0x7E:
            out.append(c)
        else:
            # buf is a (signed) char in git: bytes >= 0x80 are printed sign-extended to 32 bits
            out += b"\\%o" % (c if c < 0x80 else (c - 256) & 0xFFFFFFFF)
    return bytes(out)


def selftest():
    """Vectors from protocol-common.txt and hand-computed cases; returns error text or None."""
    vec = [(b"a\n", b"0006a\n"), (b"a", b"0005a"), (b"foobar\n", b"000bfoobar\n"), (b"", b"0004"), (None, b"0000")]
    for item, wire in vec:
        if encode(item) != wire:
            return f"encode({item!r}) = {encode(item)!r}, documentation says {wire!r}"
        ev, term = parse(wire)
        if term != ("eof", len(wire)) or items_of(ev) != [item]:
            return f"parse({wire!r}) = {ev!r}, {term!r}"
    if encode(b"x" * 65516)[:4] != b"fff0":
        return "maximum frame is not fff0"
    try:
        encode(b"x" * 65517)
        return "reference encoder accepted 65517 bytes"
    except ValueError:
        pass
    checks = [
        (b"0005a00", "short-prefix"), (b"000", "short-prefix"), (b"0006a", "short-body"), (b"00g5a", "bad-prefix"),
        (b"+005a", "bad-prefix"), (b"0003", "reserved"), (b" 005a", "bad-prefix"), (b"0x05a", "bad-prefix"),
        (b"000Aabcdef", "eof"), (b"000aabcdef", "eof"), (b"00010002", "eof"),
    ]
    for wire, want in checks:
        if parse(wire)[1][0] != want:
            return f"parse({wire!r}) terminal {parse(wire)[1]!r}, expected {want}"
    ev, term = parse(b"fff1" + b"y" * 65517)
    if [e.kind for e in ev] != ["big"] or strictly_valid(ev, term):
        return "oversize frame not classified as big"
    if _ofs_varint(1) != b"\x01" or _ofs_varint(128) != b"\x80\x00" or _ofs_varint(127) != b"\x7f":
        return "ofs varint encoder wrong"
    if _type_size_header(3, 5) != b"\x35" or _type_size_header(3, 16) != b"\xb0\x01":
        return "type/size header encoder wrong"
    if trace_escape(b"a\n\x00\\\xff") != b"a\\0\\\\37777777777":
        return "trace escape wrong"
    return None
