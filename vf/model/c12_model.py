"""C12 reference model: git trees, flat listings, tree diffs, written from the git
format documentation (Documentation/gitformat-*, git-mktree, git-diff-tree raw
output format) and NOT from dulwich's code.

A *flat listing* is ``{path: (mode, hexsha)}`` over non-directory entries.  A
*full listing* additionally contains every directory (mode 040000, tree id) and
the root under the path ``b""``.
"""

from __future__ import annotations

import hashlib

S_IFMT = 0o170000
DIR = 0o040000
REG = 0o100644
EXE = 0o100755
LNK = 0o120000
GITLINK = 0o160000
EMPTY_TREE = b"4b825dc642cb6eb9a060e54bf8d69288fbee4904"
EMPTY_BLOB = b"e69de29bb2d1d6434b8b29ae775ad8c2e48c5391"


def ifmt(mode: int) -> int:
    return mode & S_IFMT


def is_dir(mode: int) -> bool:
    return (mode & S_IFMT) == DIR


def blob_id(data: bytes) -> bytes:
    return hashlib.sha1(b"blob %d\0" % len(data) + data).hexdigest().encode()


def tree_id(body: bytes) -> bytes:
    return hashlib.sha1(b"tree %d\0" % len(body) + body).hexdigest().encode()


def valid_listing(listing) -> bool:
    """No path is both an entry and a directory prefix of another; sane components."""
    for p in listing:
        parts = p.split(b"/")
        if any(c == b"" or b"\0" in c for c in parts):
            return False
        for i in range(1, len(parts)):
            if b"/".join(parts[:i]) in listing:
                return False
    return True


def nest(listing):
    root = {}
    for path, ent in listing.items():
        parts = path.split(b"/")
        d = root
        for p in parts[:-1]:
            d = d.setdefault(p, {})
            if not isinstance(d, dict):
                raise ValueError(f"file/directory conflict at {path!r}")
        if parts[-1] in d:
            raise ValueError(f"file/directory conflict at {path!r}")
        d[parts[-1]] = ent
    return root


def sort_entries(entries):
    """git's canonical tree order: compare names as if directories ended in '/'."""
    return sorted(entries, key=lambda e: e[0] + b"/" if is_dir(e[1]) else e[0])


def tree_body(entries) -> bytes:
    """entries: (name, mode, hexsha) already in canonical order."""
    return b"".join(b"%o %s\0" % (m, n) + bytes.fromhex(s.decode("ascii")) for n, m, s in entries)


class Built:
    """Result of building a flat listing: ids of all trees, full listing."""

    __slots__ = ("root", "trees", "full", "flat")

    def __init__(self):
        self.trees = {}  # dir path -> (id, entries in canonical order, body)
        self.full = {}
        self.flat = {}
        self.root = None


def build(listing) -> Built:
    b = Built()
    b.flat = dict(listing)

    def rec(node, path):
        entries = []
        for name, v in node.items():
            sub = path + b"/" + name if path else name
            if isinstance(v, dict):
                tid = rec(v, sub)
                entries.append((name, DIR, tid))
            else:
                entries.append((name, v[0], v[1]))
                b.full[sub] = (v[0], v[1])
        es = sort_entries(entries)
        body = tree_body(es)
        tid = tree_id(body)
        b.trees[path] = (tid, es, body)
        b.full[path] = (DIR, tid)
        return tid

    b.root = rec(nest(listing), b"")
    return b


def parse_raw_tree(body: bytes):
    """Inverse of tree_body, from the format description (used on git's bytes)."""
    out = []
    pos = 0
    while pos < len(body):
        sp = body.index(b" ", pos)
        nul = body.index(b"\0", sp)
        out.append((body[sp + 1 : nul], int(body[pos:sp], 8), body[nul + 1 : nul + 21].hex().encode()))
        pos = nul + 21
    return out


# ---------------------------------------------------------------------------
# diffs


def entry(path, me):
    return None if me is None else (path, me[0], me[1])


def diff_model(LA, LB, want_unchanged=False, change_type_same=False):
    """Expected change set between two listings (flat or full) as a list of
    (type, old, new) with old/new = (path, mode, sha) | None."""
    out = []
    for p in sorted(set(LA) | set(LB)):
        o, n = LA.get(p), LB.get(p)
        if o is None:
            out.append(("add", None, entry(p, n)))
        elif n is None:
            out.append(("delete", entry(p, o), None))
        elif o == n:
            if want_unchanged:
                out.append(("unchanged", entry(p, o), entry(p, n)))
        elif ifmt(o[0]) != ifmt(n[0]) and not change_type_same:
            out.append(("delete", entry(p, o), None))
            out.append(("add", None, entry(p, n)))
        else:
            out.append(("modify", entry(p, o), entry(p, n)))
    return out


def under(path: bytes, flt: bytes) -> bool:
    return path == flt or path.startswith(flt + b"/")


def proper_ancestor(path: bytes, flt: bytes) -> bool:
    return path != b"" and flt.startswith(path + b"/")


def apply_changes(LA, changes):
    """Apply a change *set*: removals (delete, rename sources) first, then every
    new entry is set.  Returns (listing, problems)."""
    res = dict(LA)
    problems = []
    consumed = set()
    for t, o, n in changes:
        # an old path is used up by a delete, by being renamed away or by being modified in place; a copy leaves it alone.
        # "delete a" next to "modify a" (or "rename a -> b" next to "modify a") mentions a path twice
        if t in ("delete", "rename", "modify"):
            if o[0] in consumed:
                problems.append(("old-path-consumed-twice", o[0]))
            consumed.add(o[0])
    for t, o, n in changes:
        if t in ("delete", "rename"):
            if o[0] not in res:
                problems.append(("removed-twice-or-absent", o[0]))
            res.pop(o[0], None)
    seen_new = set()
    for t, o, n in changes:
        if t in ("add", "modify", "rename", "copy", "unchanged"):
            if n[0] in seen_new:
                problems.append(("new-path-twice", n[0]))
            seen_new.add(n[0])
            res[n[0]] = (n[1], n[2])
    return res, problems


def per_path(changes):
    """{path: [old|None, new|None]} merging a delete and an add of one path (the
    way a type change may be reported); None if a side is given twice."""
    d = {}
    for t, o, n in changes:
        if o is not None:
            slot = d.setdefault(o[0], [None, None])
            if slot[0] is not None:
                return None
            slot[0] = (o[1], o[2])
        if n is not None:
            slot = d.setdefault(n[0], [None, None])
            if slot[1] is not None:
                return None
            slot[1] = (n[1], n[2])
    return d


# ---------------------------------------------------------------------------
# git diff-tree --raw -z parser (format: git-diff-tree(1) "RAW OUTPUT FORMAT")


def parse_difftree_stdin(data: bytes, npairs: int):
    """Output of `git diff-tree --stdin --raw -z` fed with "<tree> <tree>" lines.
    Returns a list (one per pair) of records (status, old|None, new|None) where
    old/new = (path, mode, sha)."""
    res = []
    pos = 0
    zeros = b"0" * 40
    while pos < len(data):
        if data[pos : pos + 1] != b":":
            nl = data.index(b"\n", pos)
            head = data[pos:nl].split(b" ")
            if len(head) != 2 or any(len(h) != 40 for h in head):
                raise ValueError(f"unexpected diff-tree header {data[pos:nl]!r}")
            res.append([])
            pos = nl + 1
            continue
        end = data.index(b"\0", pos)
        om, nm, osha, nsha, status = data[pos + 1 : end].split(b" ")
        pos = end + 1
        end = data.index(b"\0", pos)
        p1 = data[pos:end]
        pos = end + 1
        p2 = p1
        if status[:1] in (b"R", b"C"):
            end = data.index(b"\0", pos)
            p2 = data[pos:end]
            pos = end + 1
        old = None if osha == zeros and int(om, 8) == 0 else (p1, int(om, 8), osha)
        new = None if nsha == zeros and int(nm, 8) == 0 else (p2, int(nm, 8), nsha)
        if not res:
            raise ValueError("diff-tree record before header")
        res[-1].append((status.decode(), old, new))
    if len(res) != npairs:
        raise ValueError(f"expected {npairs} diff-tree sections, got {len(res)}")
    return res


# ---------------------------------------------------------------------------
# block counting (dulwich.diff_tree._count_blocks docstring: "Splits the data
# into blocks either on lines or <=64-byte chunks of lines"; value = total bytes)


def count_blocks_model(data: bytes, block_size=64):
    counts = {}
    for line in _split_lf(data):
        for i in range(0, len(line), block_size):
            piece = line[i : i + block_size]
            counts[hash(piece)] = counts.get(hash(piece), 0) + len(piece)
    return counts


def _split_lf(data: bytes):
    """Split after every LF only (bytes.splitlines would also split on CR etc.)."""
    out = []
    pos = 0
    while pos < len(data):
        nl = data.find(b"\n", pos)
        if nl < 0:
            out.append(data[pos:])
            break
        out.append(data[pos : nl + 1])
        pos = nl + 1
    return out


def merge_entries_model(path: bytes, ents1, ents2):
    """ents: {name: (mode, sha)}; pairs ordered by name (bytewise)."""
    out = []
    for name in sorted(set(ents1) | set(ents2)):
        full = path + b"/" + name if path else name
        e1 = (full,) + tuple(ents1[name]) if name in ents1 else None
        e2 = (full,) + tuple(ents2[name]) if name in ents2 else None
        out.append((e1, e2))
    return out
