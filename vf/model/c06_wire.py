"""C06 reference models: receive-pack wire format and an independent reader of a repository's refs.

Written from git's documentation only (nothing in here imports dulwich):

* Documentation/gitprotocol-common.txt   pkt-line = 4 hex digits of (payload length + 4) then the payload;
                                         "0000" is the flush-pkt.
* Documentation/gitprotocol-pack.txt     "Reference Discovery": first advertised line is
                                         ``<id> SP <name> NUL <capability-list> LF``, then ``<id> SP <name> LF``...,
                                         flush; an empty repository advertises ``<zero-id> SP capabilities^{}``.
                                         "Reference Update Request and Packfile Transfer":
                                         ``command-list = PKT-LINE(command NUL capability-list) *PKT-LINE(command) flush-pkt``
                                         ``command = old-id SP new-id SP name``; the packfile follows the flush
                                         unless every command is a delete.
                                         "Report Status": ``unpack SP (ok|<error>)``, then one ``ok SP <ref>`` or
                                         ``ng SP <ref> SP <error>`` per command, then a flush-pkt.
* Documentation/gitprotocol-capabilities.txt  side-band-64k: every packet's first payload byte is the band
                                         (1 = data, 2 = progress, 3 = fatal error); the report-status pkt-lines
                                         travel *inside* the band-1 byte stream, which is closed by a flush-pkt.
* Documentation/gitrepository-layout.txt / git-pack-refs: ``packed-refs`` lines ``<id> SP <name>``, ``^<id>`` is the
                                         peeled value of the preceding line, ``#`` starts the header; a loose file
                                         ``refs/...`` overrides the packed entry; ``ref: <name>`` is a symbolic ref.
"""

from __future__ import annotations

import os

ZERO = b"0" * 40


class WireError(Exception):
    """The byte stream does not follow the documented format (an observation about the peer, or a harness bug)."""


# ---------------------------------------------------------------------------
# pkt-line


def pkt(payload: bytes) -> bytes:
    n = len(payload) + 4
    if n > 65520:
        raise ValueError("payload too long for one pkt-line")
    return b"%04x" % n + payload


FLUSH = b"0000"


def read_pkts(data: bytes, pos: int = 0):
    """Yield (payload | None for flush, end position) until the data is exhausted."""
    n = len(data)
    while pos < n:
        head = data[pos : pos + 4]
        if len(head) < 4:
            raise WireError(f"truncated pkt-line length at {pos}: {head!r}")
        try:
            ln = int(head, 16)
        except ValueError:
            raise WireError(f"bad pkt-line length at {pos}: {head!r}")
        if ln == 0:
            pos += 4
            yield None, pos
            continue
        if ln < 4:
            raise WireError(f"reserved pkt-line length {ln} at {pos}")
        if pos + ln > n:
            raise WireError(f"pkt-line at {pos} promises {ln} bytes, {n - pos} left")
        yield data[pos + 4 : pos + ln], pos + ln
        pos += ln


# ---------------------------------------------------------------------------
# client -> server


def build_request(commands, caps, pack: bytes | None) -> bytes:
    """commands: [(old hex, new hex, refname)]; caps: list of capability byte strings; pack: bytes or None."""
    if not commands:
        return FLUSH
    out = []
    for i, (old, new, name) in enumerate(commands):
        line = old + b" " + new + b" " + name
        if i == 0 and caps:
            line += b"\0" + b" ".join(caps)
        out.append(pkt(line + b"\n"))
    out.append(FLUSH)
    if pack is not None:
        out.append(pack)
    return b"".join(out)


# ---------------------------------------------------------------------------
# server -> client


def build_advert(refs, caps) -> bytes:
    """refs: [(name, hex id)] already in the order to advertise."""
    out = []
    if not refs:
        out.append(pkt(ZERO + b" capabilities^{}\0" + b" ".join(caps) + b"\n"))
    for i, (name, sha) in enumerate(refs):
        if i == 0:
            out.append(pkt(sha + b" " + name + b"\0" + b" ".join(caps) + b"\n"))
        else:
            out.append(pkt(sha + b" " + name + b"\n"))
    out.append(FLUSH)
    return b"".join(out)


def parse_advert(data: bytes, pos: int = 0):
    """Returns ({name: id}, set(caps), position after the flush)."""
    refs = {}
    caps = set()
    first = True
    for payload, end in read_pkts(data, pos):
        if payload is None:
            return refs, caps, end
        line = payload
        if first:
            first = False
            if b"\0" not in line:
                raise WireError(f"first advertised line carries no capability list: {line!r}")
            line, capstr = line.split(b"\0", 1)
            caps = set(capstr.rstrip(b"\n").split(b" "))
        line = line.rstrip(b"\n")
        sha, name = line.split(b" ", 1)
        if name != b"capabilities^{}":
            refs[name] = sha
    raise WireError("reference advertisement is not terminated by a flush-pkt")


def report_lines(unpack: bytes, statuses) -> bytes:
    """The report-status pkt-line stream: statuses = [(ref, None | error message)]."""
    out = [pkt(b"unpack " + unpack + b"\n")]
    for ref, err in statuses:
        if err is None:
            out.append(pkt(b"ok " + ref + b"\n"))
        else:
            out.append(pkt(b"ng " + ref + b" " + err + b"\n"))
    out.append(FLUSH)
    return b"".join(out)


def sideband_wrap(stream: bytes, cuts, progress=()) -> bytes:
    """Carry ``stream`` on band 1, cut at the given offsets; progress = {cut index: message} goes on band 2
    before the corresponding piece.  Closed by a flush-pkt."""
    progress = dict(progress)
    pieces = []
    last = 0
    for c in sorted(set(c for c in cuts if 0 < c < len(stream))):
        pieces.append(stream[last:c])
        last = c
    pieces.append(stream[last:])
    out = []
    for i, p in enumerate(pieces):
        if i in progress:
            out.append(pkt(b"\x02" + progress[i]))
        for k in range(0, len(p), 65515):
            out.append(pkt(b"\x01" + p[k : k + 65515]))
    out.append(FLUSH)
    return b"".join(out)


def parse_report(data: bytes, pos: int, sideband: bool):
    """Parse what a receive-pack server sends after the pack.

    Returns dict(unpack=bytes|None, statuses=[(ref, "ok"|"ng", msg)], progress=bytes, fatal=bytes, end=pos, present=bool).
    """
    res = dict(unpack=None, statuses=[], progress=b"", fatal=b"", end=pos, present=False)
    if pos >= len(data):
        return res
    if sideband:
        band1 = bytearray()
        closed = False
        for payload, end in read_pkts(data, pos):
            res["end"] = end
            if payload is None:
                closed = True
                break
            if not payload:
                raise WireError("empty side-band packet")
            band = payload[0]
            if band == 1:
                band1 += payload[1:]
            elif band == 2:
                res["progress"] += payload[1:]
            elif band == 3:
                res["fatal"] += payload[1:]
            else:
                raise WireError(f"unknown side band {band}")
        if not closed:
            raise WireError("side-band stream is not closed by a flush-pkt")
        stream = bytes(band1)
        spos = 0
    else:
        stream = data
        spos = pos
    if spos >= len(stream):
        return res
    res["present"] = True
    terminated = False
    for payload, end in read_pkts(stream, spos):
        if not sideband:
            res["end"] = end
        if payload is None:
            terminated = True
            break
        line = payload.rstrip(b"\n")
        if res["unpack"] is None:
            if not line.startswith(b"unpack "):
                raise WireError(f"report-status does not start with an unpack line: {line!r}")
            res["unpack"] = line[len(b"unpack ") :]
        elif line.startswith(b"ok "):
            res["statuses"].append((line[3:], "ok", b""))
        elif line.startswith(b"ng "):
            rest = line[3:]
            if b" " in rest:
                ref, msg = rest.split(b" ", 1)
            else:
                ref, msg = rest, b""
            res["statuses"].append((ref, "ng", msg))
        else:
            raise WireError(f"unknown report-status line {line!r}")
    if not terminated:
        raise WireError("report-status is not terminated by a flush-pkt")
    if sideband and end != len(stream):
        raise WireError("data after the report-status flush on band 1")
    return res


# ---------------------------------------------------------------------------
# independent reading of refs from a git directory


def read_raw_refs(gitdir: str) -> dict:
    """{name: 40-hex id | b"ref: <target>"} for HEAD and everything under refs/ (loose overrides packed)."""
    out = {}
    p = os.path.join(gitdir, "packed-refs")
    try:
        with open(p, "rb") as f:
            for line in f.read().split(b"\n"):
                if not line or line.startswith(b"#") or line.startswith(b"^"):
                    continue
                sha, name = line.split(b" ", 1)
                out[name] = sha
    except FileNotFoundError:
        pass
    root = os.path.join(gitdir, "refs")
    for d, dirs, files in os.walk(root):
        dirs.sort()
        for fn in sorted(files):
            if fn.endswith(".lock"):
                continue
            full = os.path.join(d, fn)
            name = os.path.relpath(full, gitdir).replace(os.sep, "/").encode()
            try:
                with open(full, "rb") as f:
                    val = f.read()
            except (FileNotFoundError, IsADirectoryError):
                continue
            out[name] = val.rstrip(b"\r\n")
    try:
        with open(os.path.join(gitdir, "HEAD"), "rb") as f:
            out[b"HEAD"] = f.read().rstrip(b"\r\n")
    except FileNotFoundError:
        pass
    return out


def read_one_raw(gitdir: str, name: bytes):
    """Raw value of one ref (loose first, then packed-refs) or None."""
    try:
        with open(os.path.join(gitdir, name.decode()), "rb") as f:
            return f.read().rstrip(b"\r\n")
    except (FileNotFoundError, IsADirectoryError, NotADirectoryError):
        pass
    try:
        with open(os.path.join(gitdir, "packed-refs"), "rb") as f:
            for line in f.read().split(b"\n"):
                if line and not line.startswith(b"#") and not line.startswith(b"^"):
                    sha, n = line.split(b" ", 1)
                    if n == name:
                        return sha
    except FileNotFoundError:
        pass
    return None


def resolve(raw: dict, name: bytes, depth: int = 5):
    """Follow symbolic refs; returns (final ref name, id or None)."""
    for _ in range(depth):
        v = raw.get(name)
        if v is None:
            return name, None
        if v.startswith(b"ref: "):
            name = v[5:]
            continue
        return name, v
    return name, None


def resolved_map(raw: dict) -> dict:
    """{name: id} for every ref that resolves to an id."""
    out = {}
    for name in raw:
        _, v = resolve(raw, name)
        if v is not None:
            out[name] = v
    return out


def selftest():
    req = build_request([(ZERO, b"1" * 40, b"refs/heads/x"), (b"2" * 40, ZERO, b"refs/heads/y")], [b"report-status", b"atomic"], b"PACKDATA")
    want = (b"0078" + ZERO + b" " + b"1" * 40 + b" refs/heads/x\0report-status atomic\n"
            b"0063" + b"2" * 40 + b" " + ZERO + b" refs/heads/y\n" b"0000PACKDATA")
    if req != want:
        raise AssertionError(f"build_request: {req!r}")
    rep = report_lines(b"ok", [(b"refs/heads/x", None), (b"refs/heads/y", b"non-fast-forward")])
    if rep != b"000eunpack ok\n0014ok refs/heads/x\n0025ng refs/heads/y non-fast-forward\n0000":
        raise AssertionError(f"report_lines: {rep!r}")
    for sb, data in ((False, rep), (True, sideband_wrap(rep, [3, 17, 30], {1: b"hello\n"}))):
        r = parse_report(data, 0, sb)
        if r["unpack"] != b"ok" or r["statuses"] != [(b"refs/heads/x", "ok", b""), (b"refs/heads/y", "ng", b"non-fast-forward")] or r["end"] != len(data):
            raise AssertionError(f"parse_report(sideband={sb}): {r!r}")
    adv = build_advert([(b"HEAD", b"3" * 40), (b"refs/heads/x", b"3" * 40)], [b"report-status", b"delete-refs"])
    refs, caps, end = parse_advert(adv)
    if refs != {b"HEAD": b"3" * 40, b"refs/heads/x": b"3" * 40} or caps != {b"report-status", b"delete-refs"} or end != len(adv):
        raise AssertionError("parse_advert")
