"""C16 reference models.

1. ``refname_rules`` — the ten rules of git-check-ref-format(1), written from
   the manual page (not from dulwich, not from git's refs.c).  Returns the set
   of violated rule numbers; a name is valid iff the set is empty.
2. ``RefModel`` — the "simple map model" of the property statement: a dict
   name -> direct value | symbolic target, with the RefsContainer contract
   (docstrings of dulwich.refs.RefsContainer) as transition function.

Where the contract leaves an outcome open the model returns several accepted
alternatives instead of picking one (see ``expect``).
"""

from __future__ import annotations

ZERO = b"0" * 40
SYMREF = b"ref: "

# ---------------------------------------------------------------------------
# git-check-ref-format(1), rules numbered as in the manual page


def refname_rules(name: bytes) -> frozenset:
    bad = set()
    comps = name.split(b"/")
    # 1. no slash-separated component can begin with a dot or end with .lock
    if any(c.startswith(b".") or c.endswith(b".lock") for c in comps):
        bad.add(1)
    # 2. must contain at least one /
    if b"/" not in name:
        bad.add(2)
    # 3. no two consecutive dots anywhere
    if b".." in name:
        bad.add(3)
    # 4. no ASCII control characters (< \040 or \177 DEL), space, tilde, caret, colon
    if any(c < 0o40 or c == 0o177 or c in b" ~^:" for c in name):
        bad.add(4)
    # 5. no question-mark, asterisk, open bracket
    if any(c in b"?*[" for c in name):
        bad.add(5)
    # 6. cannot begin or end with a slash or contain multiple consecutive slashes
    if name.startswith(b"/") or name.endswith(b"/") or b"//" in name:
        bad.add(6)
    # 7. cannot end with a dot
    if name.endswith(b"."):
        bad.add(7)
    # 8. cannot contain a sequence @{
    if b"@{" in name:
        bad.add(8)
    # 9. cannot be the single character @
    if name == b"@":
        bad.add(9)
    # 10. cannot contain a backslash
    if b"\\" in name:
        bad.add(10)
    return frozenset(bad)


def refname_valid(name: bytes) -> bool:
    return not refname_rules(name)


# ---------------------------------------------------------------------------
# map model


def D(sha):
    return ("d", sha)


def S(target):
    return ("s", target)


class Alt:
    """One accepted outcome: how the call ends and the state afterwards."""

    __slots__ = ("how", "value", "refs")

    def __init__(self, how, value, refs):
        self.how = how  # "ret" | "exc"
        self.value = value  # return value for "ret"
        self.refs = refs  # dict after the call

    def __repr__(self):
        return f"Alt({self.how},{self.value!r})"


class Expect:
    __slots__ = ("alts", "tags", "free")

    def __init__(self, alts, tags=(), free=None):
        self.alts = alts
        self.tags = set(tags)
        # names whose fate the contract leaves open (write through a symref
        # loop); None = fully determined by alts
        self.free = free


class RefModel:
    def __init__(self, refs=None):
        self.refs = dict(refs or {})

    def copy(self):
        return RefModel(self.refs)

    # -- reading -------------------------------------------------------------
    def raw(self, n):
        v = self.refs.get(n)
        if v is None:
            return None
        return v[1] if v[0] == "d" else SYMREF + v[1]

    def resolve(self, n, refs=None):
        """(chain of names starting at n, sha or None, loop?)"""
        refs = self.refs if refs is None else refs
        chain = [n]
        seen = {n}
        cur = n
        while True:
            v = refs.get(cur)
            if v is None:
                return chain, None, False
            if v[0] == "d":
                return chain, v[1], False
            cur = v[1]
            if cur in seen:
                return chain, None, True
            seen.add(cur)
            chain.append(cur)

    def value(self, n):
        return self.resolve(n)[1]

    def kind(self, n):
        v = self.refs.get(n)
        if v is None:
            return "absent"
        if v[0] == "d":
            return "direct"
        _, sha, loop = self.resolve(n)
        if loop:
            return "symref-loop"
        return "symref" if sha is not None else "symref-dangling"

    def collides(self, n, refs=None):
        """n would be file and directory at once next to an existing name."""
        refs = self.refs if refs is None else refs
        for m in refs:
            if m == n:
                continue
            if n.startswith(m + b"/"):
                return "parent"
            if m.startswith(n + b"/"):
                return "child"
        return None

    def consistent(self):
        return all(not self.collides(n) for n in self.refs)

    def resolved_dict(self):
        out = {}
        for n in self.refs:
            sha = self.value(n)
            if sha is not None:
                out[n] = sha
        return out

    def symrefs(self):
        return {n: v[1] for n, v in self.refs.items() if v[0] == "s"}

    # -- transitions ------------------------------------------------------------
    def _same(self):
        return dict(self.refs)

    def _refusal(self, explicit_bool):
        alts = [Alt("exc", None, self._same())]
        if explicit_bool:
            alts.append(Alt("ret", False, self._same()))
        return alts

    @staticmethod
    def _holds(old, cur):
        if old is None:
            return True
        if old == ZERO:
            return cur is None
        return cur == old

    def expect_set(self, n, old, new, setitem=False):
        """set_if_equals(n, old, new) / c[n] = new (old None, no return value)."""
        chain, cur, loop = self.resolve(n)
        tags = set()
        ok_ret = None if setitem else True
        if self.refs.get(n, ("d",))[0] == "s":
            tags.add("write-through")
        if loop:
            tags.add("loop-write")
            return Expect([], tags, free=set(chain))
        final = chain[-1]
        if old is not None:
            tags.add("conditional")
        coll = self.collides(final) if final not in self.refs else None
        if coll:
            tags.add("collision-" + coll)
        if not self._holds(old, cur):
            tags.add("cond-false")
            alts = [Alt("ret", False, self._same())]
            if coll:
                alts.append(Alt("exc", None, self._same()))
            return Expect(alts, tags)
        if coll:
            return Expect(self._refusal(not setitem), tags)
        after = self._same()
        after[final] = D(new)
        return Expect([Alt("ret", ok_ret, after)], tags)

    def expect_add(self, n, new):
        chain, cur, loop = self.resolve(n)
        tags = set()
        if self.refs.get(n, ("d",))[0] == "s":
            tags.add("write-through")
        if loop:
            tags.add("loop-write")
            return Expect(self._refusal(True), tags)
        if cur is not None:
            tags.add("cond-false")
            return Expect([Alt("ret", False, self._same())], tags)
        final = chain[-1]
        coll = self.collides(final)
        if coll:
            tags.add("collision-" + coll)
            return Expect(self._refusal(True), tags)
        after = self._same()
        after[final] = D(new)
        return Expect([Alt("ret", True, after)], tags)

    def expect_remove(self, n, old, delitem=False):
        """remove_if_equals(n, old) / del c[n]; never follows symrefs."""
        v = self.refs.get(n)
        tags = set()
        ok_ret = None if delitem else True
        if old is not None:
            tags.add("conditional")
        removed = self._same()
        removed.pop(n, None)
        if v is None:
            coll = self.collides(n)
            if self._holds(old, None):
                alts = [Alt("ret", ok_ret, self._same())]
                if coll:
                    # nothing to delete and the name cannot exist: an error is as good as success
                    tags.add("collision-" + coll)
                    alts.append(Alt("exc", None, self._same()))
                return Expect(alts, tags)
            tags.add("cond-false")
            alts = [Alt("ret", False, self._same())]
            if coll:
                tags.add("collision-" + coll)
                alts.append(Alt("exc", None, self._same()))
            return Expect(alts, tags)
        if v[0] == "d":
            if self._holds(old, v[1]):
                return Expect([Alt("ret", ok_ret, removed)], tags)
            tags.add("cond-false")
            return Expect([Alt("ret", False, self._same())], tags)
        # symbolic ref: deleted itself, never its target
        tags.add("remove-symref")
        if old is None:
            return Expect([Alt("ret", ok_ret, removed)], tags)
        if old == ZERO:
            tags.add("cond-false")
            return Expect([Alt("ret", False, self._same())], tags)
        if self.value(n) == old:
            # "does not follow symbolic references" + "only if it currently
            # equals old_ref": the docstrings allow both readings
            tags.add("ambiguous")
            return Expect([Alt("ret", True, removed), Alt("ret", False, self._same())], tags)
        tags.add("cond-false")
        return Expect([Alt("ret", False, self._same())], tags)

    def expect_symref(self, n, target):
        tags = set()
        if n not in self.refs:
            coll = self.collides(n)
            if coll:
                tags.add("collision-" + coll)
                return Expect(self._refusal(False), tags)
        if self.kind(n) == "symref-loop":
            tags.add("overwrite-loop")
        after = self._same()
        after[n] = S(target)
        return Expect([Alt("ret", None, after)], tags)

    def expect_noop(self):
        return Expect([Alt("ret", None, self._same())])
