"""C19 machinery: chunking transport, drivers for dulwich's decoders/encoders and
the lock-step judge that compares what a decoder did with the reference framer."""

from __future__ import annotations

import io
import itertools
import signal
from contextlib import contextmanager

from . import c19_ref as R

BIG = 1 << 30


class BudgetExceeded(Exception):
    """The code under test made more transport calls than any terminating reader can need."""


class Hang(Exception):
    """Raised by the watchdog inside a decoder that does not come back."""


def _on_alarm(signum, frame):
    raise Hang("no result within the watchdog interval")


@contextmanager
def watchdog(seconds):
    """Only a guard against non-termination of the code under test (never a
    correctness signal on its own: a decoder gets tens of seconds for < 1 MB)."""
    old = signal.signal(signal.SIGALRM, _on_alarm)
    signal.setitimer(signal.ITIMER_REAL, seconds)
    try:
        yield
    finally:
        signal.setitimer(signal.ITIMER_REAL, 0)
        signal.signal(signal.SIGALRM, old)


class Wire:
    """A socket-like source: recv(n) returns 1..n bytes as dictated by a chunk plan.

    The plan is ``sizes`` followed by ``cycle`` repeated for ever; a request
    smaller than the current chunk leaves the rest of the chunk for the next
    call.  ``short_by=1`` additionally never returns the full amount asked for
    when more than one byte was requested ("n-1").
    """

    def __init__(self, data, sizes=(), cycle=(BIG,), short_by=0):
        self.data = data
        self.pos = 0
        self._plan = itertools.chain(list(sizes), itertools.cycle(list(cycle) or [BIG]))
        self.cur = 0
        self.short_by = short_by
        self.cuts = []
        self.calls = 0
        self.bad = None
        self.budget = 2 * len(data) + 64

    def recv(self, n):
        self.calls += 1
        if self.calls > self.budget:
            raise BudgetExceeded(f"{self.calls} recv calls for a {len(self.data)} byte stream")
        if not isinstance(n, int) or n <= 0:
            if self.bad is None:
                self.bad = n
            return b""
        if self.pos >= len(self.data):
            return b""
        if self.cur <= 0:
            self.cur = max(1, next(self._plan))
        k = min(max(1, n - self.short_by), self.cur)
        d = self.data[self.pos : self.pos + k]
        self.pos += len(d)
        self.cur -= len(d)
        self.cuts.append(self.pos)
        return d


class ExactReader:
    """read(n) returning exactly n bytes unless EOF: what file.read/makefile give Protocol."""

    def __init__(self, data):
        self._f = io.BytesIO(data)
        self.bad = None
        self.calls = 0
        self.budget = len(data) + 64

    def read(self, n):
        self.calls += 1
        if self.calls > self.budget:
            raise BudgetExceeded(f"{self.calls} read calls for a {len(self._f.getvalue())} byte stream")
        if not isinstance(n, int) or n < 0:
            if self.bad is None:
                self.bad = n
            return b""
        return self._f.read(n)


# ---------------------------------------------------------------------------
# decoders (each returns (frames, term)); term is
#   ("exc", exception) | ("eof-true",) | ("end", tail) | ("runaway",)


def _limit(stream):
    return len(stream) // 4 + 3


def dec_readloop(proto, stream):
    frames = []
    try:
        for _ in range(_limit(stream)):
            frames.append(proto.read_pkt_line())
        return frames, ("runaway",)
    except Exception as e:  # judged by type below; nothing is swallowed
        return frames, ("exc", e)


def dec_seq(proto, stream):
    """read_pkt_seq segment after segment; a segment end is recorded as None."""
    frames = []
    try:
        for _ in range(_limit(stream)):
            for pkt in proto.read_pkt_seq():
                frames.append(pkt)
            frames.append(None)
        return frames, ("runaway",)
    except Exception as e:
        return frames, ("exc", e)


def dec_eofloop(proto, stream, eof_mask, unread_mask):
    """Interleave eof() probes and unread/re-read with plain reads."""
    frames = []
    try:
        for i in range(_limit(stream)):
            if (eof_mask >> (i % 16)) & 1:
                if proto.eof():
                    return frames, ("eof-true",)
            pkt = proto.read_pkt_line()
            if (unread_mask >> (i % 16)) & 1:
                proto.unread_pkt_line(pkt)
                if (eof_mask >> ((i + 5) % 16)) & 1 and proto.eof():
                    return frames, ("eof-true-after-unread",)
                pkt = proto.read_pkt_line()
            frames.append(pkt)
        return frames, ("runaway",)
    except Exception as e:
        return frames, ("exc", e)


def dec_parser(P, wire, req=65536):
    frames = []
    parser = P.PktLineParser(frames.append)
    try:
        while True:
            d = wire.recv(req)
            if not d:
                break
            parser.parse(d)
            if len(frames) > len(wire.data) // 4 + 3:
                return frames, ("runaway",)
        return frames, ("end", parser.get_tail())
    except Exception as e:
        return frames, ("exc", e)


SITE = {
    "proto": "Protocol.read_pkt_line",
    "rproto": "ReceivableProtocol.read_pkt_line",
    "seq": "read_pkt_seq",
    "pseq": "read_pkt_seq",
    "eofloop": "eof-unread",
    "peof": "eof-unread",
    "parser": "PktLineParser",
}
# an exception that escapes read_pkt_line is a fact about the reader underneath, whichever loop drove it
READER = {"proto": "Protocol.read_pkt_line", "pseq": "Protocol.read_pkt_line", "peof": "Protocol.read_pkt_line",
          "rproto": "ReceivableProtocol.read_pkt_line", "seq": "ReceivableProtocol.read_pkt_line",
          "eofloop": "ReceivableProtocol.read_pkt_line", "parser": "PktLineParser"}


def _may_reject(ev, dec):
    if ev.kind in ("resp-end", "big"):
        return True
    return ev.kind == "delim" and dec == "parser"


def _short(b, n=40):
    if b is None or isinstance(b, str):
        return repr(b)
    return repr(b) if len(b) <= n else f"{b[: n // 2]!r}..<{len(b)} bytes>"


def exception_kind(events, terminal, frames, term):
    """'<Exc>-at-<reference position>' when a run ended in an exception, else None."""
    if term[0] != "exc":
        return None
    at = events[len(frames)].kind if len(frames) < len(events) else terminal[0]
    return f"{type(term[1]).__name__}-at-{at}"


def judge(ctx, check, case, dec, stream, events, terminal, frames, term, transport, GitProtocolError, reader_kind=None):
    """Compare one decoder run with the reference parse.  Returns True if it held.

    ``reader_kind`` is exception_kind() of the plain read_pkt_line loop over the
    same kind of reader and the same stream: when a driving loop (read_pkt_seq,
    eof/unread) dies of the very same exception at the same place, the failure
    is filed under the reader, otherwise under the loop.
    """
    site = SITE[dec]
    mine = exception_kind(events, terminal, frames, term)
    exc_site = READER[dec] if (dec in ("proto", "rproto", "parser") or (mine is not None and mine == reader_kind)) else site

    def fail(kind, msg, where=None):
        ctx.fail(f"C19:{where or site}:{kind}", f"{site}: {msg} [stream {len(stream)} bytes: {_short(stream, 60)}]", check, case)
        return False

    ok = True
    if transport is not None and transport.bad is not None:
        ok = fail("nonpositive-read-request", f"asked the transport for {transport.bad!r} bytes")
    is_exc = term[0] == "exc"
    exc = term[1] if is_exc else None
    proto_err = is_exc and isinstance(exc, GitProtocolError)
    ename = type(exc).__name__ if is_exc else None

    for j, ev in enumerate(events):
        if j >= len(frames):
            break
        want, got = ev.value(), frames[j]
        if got == want and type(got) is type(want):
            continue
        if ev.kind == "empty" and got is None:
            kind = "empty-payload-returned-as-None"
        elif want is None and got is not None:
            kind = f"{ev.kind}-returned-as-data"
        elif got is None:
            kind = "data-returned-as-None"
        elif not isinstance(got, (bytes, bytearray)):
            kind = f"frame-of-type-{type(got).__name__}"
        elif len(got) != len(want):
            kind = "payload-length-differs"
        else:
            kind = "payload-bytes-differ"
        return fail(kind, f"frame {j} (reference: {ev.kind} at {ev.start}): expected {_short(want)}, got {_short(got)}")

    if len(frames) > len(events):
        extra = frames[len(events)]
        return fail(
            f"extra-frame-at-{terminal[0]}",
            f"returned {_short(extra)} as frame {len(events)} although the stream has only {len(events)} frames "
            f"and then {terminal!r}",
        )

    if len(frames) < len(events):
        ev = events[len(frames)]
        if proto_err and _may_reject(ev, dec):
            return ok
        if is_exc:
            if isinstance(exc, (BudgetExceeded, Hang)):
                return fail(f"no-termination-at-{ev.kind}", f"{ename}: {exc}")
            return fail(f"{ename}-at-{ev.kind}", f"raised {ename}({exc}) at frame {len(frames)} ({ev.kind}, {_short(ev.payload)})", exc_site)
        return fail(f"{term[0]}-at-{ev.kind}", f"stopped with {term[0]} after {len(frames)} of {len(events)} frames (next: {ev.kind})")

    at = terminal[0]
    if term[0] == "runaway":
        return fail(f"runaway-at-{at}", "kept returning frames past the end of the stream")
    if is_exc and isinstance(exc, (BudgetExceeded, Hang)):
        return fail(f"no-termination-at-{at}", f"{ename}: {exc}")
    if dec != "parser":
        if proto_err:
            return ok
        if term[0] == "eof-true" and at == "eof":
            return ok
        if is_exc:
            return fail(f"{ename}-at-{at}", f"raised {ename}({exc}) where the stream has {terminal!r}", exc_site)
        return fail(f"{term[0]}-at-{at}", f"reported {term[0]} where the stream has {terminal!r}")
    # incremental parser
    rest = stream[terminal[1] :]
    if at in ("eof", "short-prefix", "short-body"):
        if term[0] == "end":
            if term[1] == rest:
                return ok
            return fail(f"tail-differs-at-{at}", f"get_tail() = {_short(term[1])}, undecoded remainder is {_short(rest)}")
        if proto_err and at == "short-body" and terminal[2] > R.MAX_PKT_LEN:
            return ok
        return fail(f"{ename}-at-{at}", f"raised {ename}({exc}) on an incomplete but so far well-formed stream")
    # bad-prefix / reserved
    if proto_err:
        return ok
    if is_exc:
        return fail(f"{ename}-at-{at}", f"raised {ename}({exc}) where the stream has {terminal!r}")
    return fail(f"no-error-at-{at}", f"accepted a stream with {terminal!r} silently (tail {_short(term[1])})")


# ---------------------------------------------------------------------------
# chunk plans


def sizes_from_cuts(cuts, total):
    out = []
    prev = 0
    for c in sorted(set(c for c in cuts if 0 < c < total)):
        out.append(c - prev)
        prev = c
    return out


def window_plan(starts, total, pattern, before=6, after=12, max_chunks=4000):
    """Small chunks (``pattern`` cycled) in a window around every frame start,
    one big chunk in between: 'one byte at a time' where it matters on streams
    that are too long to be served that way throughout."""
    sizes = []
    pos = 0
    pit = itertools.cycle(pattern)
    for s in starts:
        lo, hi = max(pos, s - before), min(total, s + after)
        if lo > pos:
            sizes.append(lo - pos)
            pos = lo
        while pos < hi and len(sizes) < max_chunks:
            k = min(next(pit), hi - pos)
            sizes.append(k)
            pos += k
    return sizes


def cut_classes(events, cuts):
    """(cut inside a length prefix, cut inside a body) for the delivered chunks."""
    if not events or not cuts:
        return False, False
    cs = sorted(set(cuts))
    import bisect

    in_prefix = in_body = False
    for e in events:
        i = bisect.bisect_right(cs, e.start)
        if i < len(cs) and cs[i] < e.start + 4:
            in_prefix = True
        j = bisect.bisect_right(cs, e.start + 4)
        if j < len(cs) and cs[j] < e.end:
            in_body = True
        if in_prefix and in_body:
            break
    return in_prefix, in_body
