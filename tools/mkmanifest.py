#!/usr/bin/env python3-vt
"""Regenerate MANIFEST.json from tools/manifest_src.py (keeps it valid at all times)."""
import json, os, sys
here = os.path.dirname(os.path.abspath(__file__))
root = os.path.dirname(here)
sys.path.insert(0, here)
import manifest_src as M

checks = []
for pid, c in sorted(M.CHECKS.items()):
    checks.append(dict(
        property_id=pid,
        quick_cmd=f"./check {pid} quick",
        thorough_cmd=f"./check {pid} thorough",
        evidence_file=f"/verif/evidence/{pid}.json",
        replay_cmd_template=f"./check {pid} --replay {{path}}",
        engine=c.get("engine", "vf"),
        level_claimed=dict(category=c["level"], text=c["text"], design_ref=c["design_ref"]),
        level_note=c["note"],
        technique=c["technique"],
    ))
all_ids = [json.loads(l)["id"] for l in open(os.path.join(root, "properties.jsonl"))]
na = [dict(property_id=i, reason=M.NOT_APPLICABLE.get(i, "check not built yet (work in progress); no claim is made for this property"))
      for i in all_ids if i not in M.CHECKS]
man = dict(
    version=1,
    setup_cmd=M.SETUP_CMD,
    hooks=M.HOOKS,
    engines=M.ENGINES,
    checks=checks,
    notes=M.NOTES,
    not_applicable=na,
)
json.dump(man, open(os.path.join(root, "MANIFEST.json"), "w"), indent=1)
import jsonschema
jsonschema.validate(man, json.load(open("/root/.vp/MANIFEST.schema.json")))
print("MANIFEST.json written:", len(checks), "checks,", len(na), "not_applicable")
