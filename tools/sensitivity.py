#!/venv/bin/python
"""Sensitivity runs (tooling, not a registered check).

  tools/sensitivity.py <ID> [patch ...]      apply each mutants/<ID>/*.patch (or the given patch files, or
                                             seeded/<id>/patch.diff) to a scratch worktree of /repo HEAD, run
                                             `./check <ID> quick` against it (VERIF_REPO), expect exit 1.

The worktree lives under /var/tmp and is removed afterwards together with its cargo target.
Results are appended to sensitivity.log.
"""
import glob
import os
import shutil
import subprocess
import sys
import time

ROOT = os.path.dirname(os.path.dirname(os.path.abspath(__file__)))


def sh(cmd, **kw):
    return subprocess.run(cmd, capture_output=True, text=True, **kw)


def main():
    prop = sys.argv[1].upper()
    patches = [os.path.abspath(a) for a in sys.argv[2:]] or sorted(glob.glob(os.path.join(ROOT, "mutants", prop, "*.patch")))
    wt = f"/var/tmp/vf-sens-{prop}-{os.getpid()}"
    # a run against a changed tree must not leave its evidence behind: evidence/<ID>.json describes /repo itself
    evp = os.path.join(ROOT, "evidence", prop + ".json")
    saved_ev = open(evp, "rb").read() if os.path.exists(evp) else None
    sh(["git", "-C", "/repo", "worktree", "add", "--detach", wt, "HEAD"])
    results = []
    try:
        for p in patches:
            sh(["git", "-C", wt, "checkout", "--", "."])
            a = sh(["git", "-C", wt, "apply", "--recount", p])
            if a.returncode != 0:
                results.append((p, "DOES-NOT-APPLY", 0))
                continue
            t = time.time()
            env = dict(os.environ, VERIF_REPO=wt)
            r = sh([os.path.join(ROOT, "check"), prop, "quick"], env=env, cwd=ROOT)
            verdict = {0: "MISSED", 1: "caught", 2: "HARNESS-ERROR"}.get(r.returncode, f"exit {r.returncode}")
            buckets = [l.strip()[:160] for l in r.stdout.splitlines() if l.strip().startswith("bucket=")][:3]
            results.append((p, verdict, round(time.time() - t, 1), buckets))
            print(os.path.basename(p), verdict, round(time.time() - t, 1), buckets[:1], flush=True)
    finally:
        if saved_ev is not None:
            with open(evp, "wb") as f:
                f.write(saved_ev)
        shutil.rmtree(os.path.join(ROOT, "failures", prop), ignore_errors=True)
        sh(["git", "-C", "/repo", "worktree", "remove", "--force", wt])
        shutil.rmtree(wt, ignore_errors=True)
        # cargo target + built extensions of that scratch copy
        import hashlib

        tag = hashlib.sha1(os.path.realpath(wt).encode()).hexdigest()[:10]
        for d in glob.glob(os.path.join(ROOT, ".build", f"*{tag}*")):
            shutil.rmtree(d, ignore_errors=True)
    with open(os.path.join(ROOT, "sensitivity.log"), "a") as f:
        for r in results:
            f.write(f"{time.strftime('%F %T')} {prop} {r}\n")
    bad = [r for r in results if r[1] != "caught"]
    sys.exit(1 if bad else 0)


main()
