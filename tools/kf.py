#!/venv/bin/python
"""Maintain known_findings.json (only ever run by hand; checks never write it).

  tools/kf.py add <PROP> <status open|fixed> <commit|-> <bucket> <check> <case-json-file|-> <what...>
"""
import json, os, sys
sys.path.insert(0, os.path.dirname(os.path.dirname(os.path.abspath(__file__))))
P = os.path.join(os.path.dirname(os.path.dirname(os.path.abspath(__file__))), "known_findings.json")

def main():
    _, cmd, prop, status, commit, bucket, check, casefile, *what = sys.argv
    what = " ".join(what)
    data = json.load(open(P)) if os.path.exists(P) else {"findings": []}
    case = json.load(sys.stdin if casefile == "-" else open(casefile))
    if isinstance(case, dict) and "case" in case and "bucket" in case:
        case = case["case"]  # a replay file
    n = 1 + sum(1 for e in data["findings"] if e["property"] == prop)
    e = dict(id=f"{prop}-{n}", property=prop, status=status, bucket=bucket, check=check, what=what, case=case)
    if status == "fixed":
        e["commit"] = commit
        e["line"] = f"fixed: property={prop} {commit} {what}"
    else:
        e["line"] = f"open: property={prop} {what}"
    data["findings"].append(e)
    json.dump(data, open(P, "w"), indent=1)
    print(e["line"])

main()
