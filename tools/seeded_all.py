#!/venv/bin/python
"""Run every seeded change against the quick tier of its property (tooling, not a registered check).

  tools/seeded_all.py [VERIF_SEED]      -> seeded/STATUS.md

Each seeded/<id>/patch.diff is applied to a scratch worktree of /repo HEAD (never to /repo) and `./check <PROP> quick`
runs against it through VERIF_REPO; expected outcome: exit 1.  A patch that no longer applies to HEAD (the code it
touched has been repaired since) is reported as such.
"""
import json, os, subprocess, sys, time

ROOT = os.path.dirname(os.path.dirname(os.path.abspath(__file__)))
seed = sys.argv[1] if len(sys.argv) > 1 else "1"
from concurrent.futures import ThreadPoolExecutor

jobs = int(os.environ.get("SEEDED_JOBS", "3"))


def one(name):
    d = os.path.join(ROOT, "seeded", name)
    patch = os.path.join(d, "patch.diff")
    if not os.path.isfile(patch):
        return None
    prop = name.split("-")[0]
    t = time.time()
    r = subprocess.run([os.path.join(ROOT, "tools", "sensitivity.py"), prop, patch], env=dict(os.environ, VERIF_SEED=seed), capture_output=True, text=True)
    line = (r.stdout.strip().splitlines() or ["DOES-NOT-APPLY"])[-1]
    verdict = "caught" if " caught " in line else "MISSED" if " MISSED " in line else "does not apply to HEAD" if line == "DOES-NOT-APPLY" else line[:40]
    bucket = line.split("bucket=")[1].split(" count=")[0] if "bucket=" in line else ""
    print(name, verdict, bucket, flush=True)
    return (name, prop, verdict, round(time.time() - t), bucket)


with ThreadPoolExecutor(jobs) as ex:
    rows = [r for r in ex.map(one, sorted(os.listdir(os.path.join(ROOT, "seeded")))) if r]
head = subprocess.run(["git", "-C", "/repo", "log", "--format=%h", "-1"], capture_output=True, text=True).stdout.strip()
with open(os.path.join(ROOT, "seeded", "STATUS.md"), "w") as f:
    f.write(f"# Seeded changes against `./check <PROP> quick` (VERIF_SEED={seed}, /repo HEAD {head})\n\n| seed | property | verdict | s | first bucket |\n|---|---|---|---|---|\n")
    for r in rows:
        f.write("| " + " | ".join(str(x) for x in r) + " |\n")
sys.exit(0 if all(r[2] == "caught" for r in rows) else 1)
