#!/bin/sh
# usage: tools/c02_mutants.sh [patch names...]   (needs the scratch worktree /tmp/wt-c02)
cd /verif
for p in ${@:-$(ls mutants/C02/*.patch)}; do
  case $p in */*) ;; *) p=mutants/C02/$p.patch;; esac
  git -C /tmp/wt-c02 apply $PWD/$p || { echo "APPLY-FAILED $p"; continue; }
  out=$(VERIF_REPO=/tmp/wt-c02 ./check C02 quick 2>&1); rc=$?
  git -C /tmp/wt-c02 checkout -- .
  echo "== $(basename $p .patch): exit=$rc"
  echo "$out" | grep -E "^  bucket=|HARNESS|Traceback" | cut -c1-230 | head -6
done
