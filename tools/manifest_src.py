BASELINE_CMD = "cd /repo && /venv/bin/python -m pytest -ra -q -p no:cacheprovider --timeout=900 --continue-on-collection-errors"
SETUP_CMD = "./setup.sh"
HOOKS = dict(
    guard="DULWICH_VERIF",
    enable="no source hooks: all instrumentation is interposition from the harness (checks export DULWICH_VERIF=1, which nothing in /repo reads)",
    baseline_off_cmd=BASELINE_CMD,
    source_commits=[],
    add_only=True,
)
ENGINES = [
    dict(name="vf", path="vf/", serves_properties=["C20"],
         kind_free_text="Hypothesis / exhaustive-enumeration runner with sharding over 16 processes, bucketed findings, replay files"),
    dict(name="sandbox", path="vf/sandbox.py", serves_properties=["C03", "C15"],
         kind_free_text="E1: crash-isolating forked children (death attributed to the exact case), RLIMIT_AS memory allowance"),
    dict(name="rustext", path="vf/rustext.py", serves_properties=["C03", "C15"],
         kind_free_text="rebuilds the PyO3 crates from the working tree (cargo --offline) and loads them ahead of stale .so files; pure-Python twin loader"),
    dict(name="interpose", path="vf/interpose.py", serves_properties=["C07", "C08", "C09"],
         kind_free_text="E2: Python-level syscall interposer with three policies: deterministic baton scheduler + DFS schedule explorer, crash snapshots, fault injection"),
    dict(name="cgit", path="vf/cgit.py", serves_properties=["C20", "C03"],
         kind_free_text="hermetic C git 2.39.5 subprocess oracle (differential)"),
]
NOTES = ("Run ./check <ID> quick|thorough from /verif.  Exit 0/1/2 = held / VIOLATION / harness error.  "
         "known_findings.json lists repaired defects (status fixed, regression inputs) and open findings.")
NOT_APPLICABLE = {}
CHECKS = {
    "C08": dict(
        level="exploration",
        engine="vf+interpose",
        technique="deterministic schedule exploration (all schedules with <=1 preemption, DFS with bound 2-3 under a cap, seeded random preemption placements) of 2-3 actors with private Repo instances; oracle = Wing-Gong linearizability search against a dict model of the ref store + commit-ancestry and reader invariants",
        text="For every initial layout of the contended branch (absent / loose / packed / loose over stale packed) and every pair from a 13-operation catalogue (conditional and unconditional updates, creations, deletions, reads, listings, pack_refs, work-tree commits; plus two-op and three-actor programs) the recorded history must be explainable by some serial order consistent with real time in which each result is the model's, a failed operation is a no-op, a commit's parents are the branch value at its linearization point and the final refs equal the model's; readers never see values that were never written and bystander refs never disappear; all successful commits are in the final history.",
        design_ref="DESIGN.md §4 C08, §3 E2",
        note="interleavings at Python-level FS-call granularity on refs/, packed-refs and HEAD; listings judged per ref (no snapshot semantics demanded); one open known finding (deleted ref resurrected by a concurrent pack_refs)",
    ),
    "C01": dict(
        level="exploration",
        technique="model-based op sequences (every public setter/observer order) + round trip against an independent git-grammar serialiser that is validated by C git (hash-object, fsck --strict, mktree, fast-import, commit-tree, mktag) in every run",
        text="Over generated blobs, trees, commits and tags of git's canonical grammar (both hash formats, Rust and Python tree back ends), after every build order, parse entry point and sequence of public setters/observers, the id is the SHA-1/SHA-256 of type, length and content, the bytes are exactly those of the reference serialisation of the logical record (every other byte reproduced after a one-field edit), and the parsed fields equal the built ones. The same records are judged by git hash-object, fsck --strict, mktree (git does the sorting) and written independently by fast-import, commit-tree and mktag, byte-identically.",
        design_ref="DESIGN.md §4 C01",
        note="trusted base: hashlib; vf/model/c01_ref.py (self-tested and bulk-validated against git 2.39.5 each run; a disagreement is a harness error); canonical grammar = what git's writers emit; accepted-not-emitted inputs are checked for naming only; no gpg (signature blocks judged by the model + fsck)",
    ),
    "C09": dict(
        level="fault_enumeration",
        engine="vf+interpose",
        technique="exhaustive crash-point enumeration: directory snapshot before every interposed file-system event whose preceding events changed the state (plus power-loss variants of un-fsynced files), each snapshot judged by a fresh Repo, an independent closure walker and git fsck",
        text="For 23 repository-changing operations x object/ref storage layouts, every boundary between two file-system calls is materialised as a copy of the repository (process-crash model; with core.fsyncObjectFiles also power-loss variants) and must open, keep every ref at its old or new value naming an intact object with readable closure, keep every previously reachable object readable and identical, expose only valid packs/loose files, and pass git fsck. Exhaustive over crash points per scenario; scenarios are a fixed catalogue.",
        design_ref="DESIGN.md §4 C09, §3 E2",
        note="crash granularity = Python-level FS call (buffered data lost, completed writes kept); directory operations ordered/durable; leftover lock/temp files allowed; commit-graph validity is left to C14",
    ),
    "C07": dict(
        level="fault_enumeration",
        engine="vf+interpose",
        technique="stateless DFS over all interleavings of 2-3 lock-protocol actors at interposed file-system-call granularity + exhaustive single-fault injection (ENOSPC/EIO/EPERM/KeyboardInterrupt at every write/flush/fsync/chmod/rename/close event) in 18 dulwich routines; oracle = lock-ownership model over the trace + whole-file-content invariant read after every event",
        text="All interleavings of two actors (and all with <=2 preemptions of three) running open/write*/close|abort|drop|raise programs over GitFile on one path are executed deterministically; a reader probe after every event must see the initial content or some actor's complete buffer, and no actor may remove/rename a lock file another created. Every routine that writes through the protocol (index, refs, packed-refs, symrefs, config, loose objects, pack index, commit-graph, alternates, named files) is re-run with each of its write-side events failing: every file must hold its old or complete new content and no .lock may survive once references are dropped.",
        design_ref="DESIGN.md §4 C07, §3 E2",
        note="interleaving granularity is the Python-level FS call (exact for dulwich: no finer shared state); POSIX semantics of the local FS; __del__-based release counts as released",
    ),
    "C15": dict(
        level="exploration",
        engine="vf+sandbox",
        technique="differential testing of each Rust/Python twin on generated, mutated and exhaustively enumerated inputs in crash-isolating children; repository-level battery run with extensions on and forced off",
        text="parse_tree, sorted_tree_items, apply_delta, create_delta, bisect_find_sha, _merge_entries, _is_tree and _count_blocks are called with identical well-typed inputs on both implementations (extension rebuilt from the working tree): both must return equal values or both fail; Rust panics and process deaths are violations. Mode strings up to length 4 (thorough 5) and short deltas are enumerated exhaustively; a deterministic repository battery (commit_tree, tree_changes with rename detection, deltified pack round trip, tree re-parse) must give identical results pure vs rust.",
        design_ref="DESIGN.md §4 C15, §3 E1",
        note="alarmed domain = inputs well-typed per the annotations (id length 20/32, modes 0..2^32-1, '/'- and NUL-free names); debug-profile build",
    ),
    "C03": dict(
        level="exploration",
        engine="vf+sandbox",
        technique="exhaustive short deltas + Hypothesis-generated pairs and structured mutants, run in crash-isolating forked children under an address-space allowance; oracle = strict patch-delta reference (self-tested against git) + slice-decomposition predicate + C git as encoder and decoder",
        text="Round trip target==apply(create(base,target)) for encoder x decoder in {python, rust, C git}; every byte string up to length 4 (thorough 5) over an opcode-covering alphabet, all size headers up to 5 (thorough 8) varint bytes and thousands of structured mutants are decoded by both decoders: outcome must be declared-length output made of base/insert slices or ApplyDeltaError; process death, panic, other exceptions or >64 MiB + 8x(inputs+output) of address-space growth are violations. Exhaustive for the stated bounds; sampling beyond.",
        design_ref="DESIGN.md §4 C03, §3 E1",
        note="trusts the 60-line reference decoder (validated against git index-pack each run) and RLIMIT_AS accounting; Rust extension rebuilt from the working tree (debug profile)",
    ),
    "C20": dict(
        level="exploration",
        technique="exhaustive enumeration of short values over a special-character alphabet + Hypothesis operation sequences; round-trip and differential oracle against git config",
        text="Every value up to length 4 (thorough 5) over a 15-symbol alphabet covering all special characters is written by dulwich and read back by dulwich and by git config --list -z; generated set/add/remove/rewrite sequences are compared with a multimap model under git's case rules; values stored by git config are read by dulwich. Exhaustive for the stated bound, sampling beyond it.",
        design_ref="DESIGN.md §4 C20",
        note="git 2.39.5 is the trusted reference reader/writer; section names restricted to [A-Za-z][A-Za-z0-9-]*; no NUL in values",
    ),
}
