BASELINE_CMD = "cd /repo && /venv/bin/python -m pytest -ra -q -p no:cacheprovider --timeout=900 --continue-on-collection-errors"
SETUP_CMD = "./setup.sh"
HOOKS = dict(
    guard="DULWICH_VERIF",
    enable="no source hooks: all instrumentation is interposition from the harness (checks export DULWICH_VERIF=1, which nothing in /repo reads)",
    baseline_off_cmd=BASELINE_CMD,
    source_commits=[],
    add_only=True,
)
ENGINES = [
    dict(name="vf", path="vf/", serves_properties=["C20"],
         kind_free_text="Hypothesis / exhaustive-enumeration runner with sharding over 16 processes, bucketed findings, replay files"),
    dict(name="cgit", path="vf/cgit.py", serves_properties=["C20"],
         kind_free_text="hermetic C git 2.39.5 subprocess oracle (differential)"),
]
NOTES = ("Run ./check <ID> quick|thorough from /verif.  Exit 0/1/2 = held / VIOLATION / harness error.  "
         "known_findings.json lists repaired defects (status fixed, regression inputs) and open findings.")
NOT_APPLICABLE = {}
CHECKS = {
    "C20": dict(
        level="exploration",
        technique="exhaustive enumeration of short values over a special-character alphabet + Hypothesis operation sequences; round-trip and differential oracle against git config",
        text="Every value up to length 4 (thorough 5) over a 15-symbol alphabet covering all special characters is written by dulwich and read back by dulwich and by git config --list -z; generated set/add/remove/rewrite sequences are compared with a multimap model under git's case rules; values stored by git config are read by dulwich. Exhaustive for the stated bound, sampling beyond it.",
        design_ref="DESIGN.md §4 C20",
        note="git 2.39.5 is the trusted reference reader/writer; section names restricted to [A-Za-z][A-Za-z0-9-]*; no NUL in values",
    ),
}
