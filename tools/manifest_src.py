BASELINE_CMD = "cd /repo && /venv/bin/python -m pytest -ra -q -p no:cacheprovider --timeout=900 --continue-on-collection-errors"
SETUP_CMD = "./setup.sh"
HOOKS = dict(
    guard="DULWICH_VERIF",
    enable="no source hooks: all instrumentation is interposition from the harness (checks export DULWICH_VERIF=1, which nothing in /repo reads)",
    baseline_off_cmd=BASELINE_CMD,
    source_commits=[],
    add_only=True,
)
ENGINES = [
    dict(name="vf", path="vf/", serves_properties=["C20"],
         kind_free_text="Hypothesis / exhaustive-enumeration runner with sharding over 16 processes, bucketed findings, replay files"),
    dict(name="sandbox", path="vf/sandbox.py", serves_properties=["C03", "C15"],
         kind_free_text="E1: crash-isolating forked children (death attributed to the exact case), RLIMIT_AS memory allowance"),
    dict(name="rustext", path="vf/rustext.py", serves_properties=["C03", "C15"],
         kind_free_text="rebuilds the PyO3 crates from the working tree (cargo --offline) and loads them ahead of stale .so files; pure-Python twin loader"),
    dict(name="interpose", path="vf/interpose.py", serves_properties=["C07", "C08", "C09", "C10"],
         kind_free_text="E2: Python-level syscall interposer with three policies: deterministic baton scheduler + DFS schedule explorer, crash snapshots, fault injection"),
    dict(name="cgit", path="vf/cgit.py", serves_properties=["C20", "C03"],
         kind_free_text="hermetic C git 2.39.5 subprocess oracle (differential)"),
]
NOTES = ("Run ./check <ID> quick|thorough from /verif.  Exit 0/1/2 = held / VIOLATION / harness error.  "
         "known_findings.json lists repaired defects (status fixed, regression inputs) and open findings.")
NOT_APPLICABLE = {}
CHECKS = {
    "C13": dict(
        level="exploration",
        technique="exhaustive small-DAG x timestamp-ordering enumeration against a brute-force ancestor-set model; Hypothesis DAGs; C git differential (merge-base, rev-list); commit-graph metamorphic relation",
        text="On every DAG shape with <=4 commits (quick; <=5 thorough, sampled 6) under every relative order of commit timestamps incl. ties, and on generated DAGs up to 40/300 commits with criss-cross/octopus/multi-root shapes and skewed clocks, find_merge_base / find_octopus_base / can_fast_forward / independent return exactly the maximal common ancestors / ancestry relation, and Repo.get_walker yields exactly the reachable set once each, respects topo order, reverse, max_entries, and (on monotone clocks) exact exclude/since/until sets; answers agree with git merge-base / rev-list and do not change when a commit-graph (dulwich- or git-written) is present.",
        design_ref="DESIGN.md §4 C13",
        note="trusted: the 40-line bitmask model (self-tested; corroborated by git 2.39.5 in every run); exclusion/since exactness only demanded on monotone clocks; topo order checked as a constraint; pure-Python dulwich pinned; not covered: walker paths/follow, grafts/shallow, complete n=6",
    ),
    "C10": dict(
        level="exploration",
        engine="vf+interpose",
        technique="Hypothesis op-list machine (build ops x maintenance ops incl. C git repack/gc) with an independent closure walker as invariant + deterministic reader/repacker schedule exploration at file-system-call granularity",
        text="Generated repositories (loose/packed/duplicated/thin-pack/alternate objects, branches, lightweight and annotated tags of every target type, detached and unborn HEAD, backdated mtimes) are put through generated sequences of pack_loose_objects, repack, repack(exclude), prune_unreachable_objects, garbage_collect, prune, pack_refs, write_midx, write_commit_graph, bitmaps, porcelain gc/repack, git repack -ad, git gc and re-opening; before each maintenance step the closure of refs+HEAD is computed independently and afterwards every such object must be readable with identical bytes through a long-lived and a fresh handle, ref values unchanged, fresh unreachable objects kept unless dropped without grace on request, git fsck --connectivity-only clean. Reader actors (store[id], in, get_raw, contains_packed/loose, iterobjects_subset) are interleaved with repack / pack_loose_objects / gc / a scripted git repack and must never see an existing object as missing.",
        design_ref="DESIGN.md §4 C10, §3 E2",
        note="reachability = refs and HEAD; grace judged with mtimes far from the boundary; full-store listings during a repack are report-only; failing maintenance/build operations through a stale handle are labels, not violations (their effects are still judged)",
    ),
    "C16": dict(
        level="exploration",
        technique="model-based operation sequences (map model from the RefsContainer docstrings) + differential against C git's view of the same directory after every step + exhaustive ref-name enumeration against a validated transcription of git check-ref-format",
        text="Every generated sequence (<=30 ops, two handles, pack_refs/add_packed_refs/re-open, C git acting on the same directory) over a 9-name universe with file/directory collisions, symref chains/loops/dangling, HEAD attached/detached, loose/packed/both, an annotated tag: DiskRefsContainer's return values, refusals and full observable state (all readers incl. get_peeled) equal the model, and git for-each-ref / show-ref --head -d / symbolic-ref list the same refs, symrefs and peeled values after every step; Dict and Reftable containers match the same model on the sub-language without symref write-through and colliding names; check_ref_format equals git-check-ref-format on every string of <=5 (thorough 6) symbols of a 15-symbol class alphabet, every byte in 8 templates and 40k longer names.",
        design_ref="DESIGN.md §4 C16",
        note="trusted: git 2.39.5 (no reftable backend: that container is judged by the model only), the map model (self-tested against git each run), the manual-page transcription (validated against the git binary on 4000 names per run and on every disagreement); contract ambiguities accepted either way; import_refs and NamespacedRefsContainer not exercised",
    ),
    "C11": dict(
        level="exploration",
        technique="reference index model (written from gitformat-index) + C git differential both ways + exhaustive truncation / single-byte damage of small index files",
        text="For generated entry sets (byte paths incl. non-UTF-8, names 0xFFE..0x2000+, v4 strip lengths across the varint boundaries, stat fields up to 2^64-1, int/float/(s,ns) times, all modes, assume-valid / skip-worktree / intent-to-add, every stage subset) x version {None,2,3,4} x skip_hash: the file dulwich writes is a well-formed index in git's order with exactly the expected fields (independent parser), dulwich re-reads it identically and git ls-files --stage --debug lists the same entries; index files written by the reference writer (TREE/REUC/UNTR/unknown extensions, null trailer) and by scripted C git are read identically by dulwich and, after an API edit and rewrite, stay well-formed, keep unknown extensions byte for byte and agree with git; a failing write leaves the previous index untouched; every truncation and single-byte flip of 13 hashed v2/v3/v4 files is refused.",
        design_ref="DESIGN.md §4 C11",
        note="trusted: git 2.39.5 ls-files as reader, vf/model/c11_index.py (self-tested byte-identical against git-written v2/v3/v4 files each run); NUL-free non-empty paths without file/dir prefix conflicts; SHA-1 repos; split index and git-written skipHash (git>=2.40) not covered",
    ),
    "C12": dict(
        level="exploration",
        technique="reference tree/diff model validated against C git (mktree, write-tree, diff-tree -r/-t/-M100%/pathspec) + exhaustive small universe of collision names + Hypothesis edit scripts + apply/rebuild metamorphic relations, Rust and Python twins side by side",
        text="On 2916 exhaustive (thorough 69696) and generated pairs of flat listings over names that sort around '/', with file/dir/symlink/gitlink type changes, emptied directories, identical subtrees, deep nesting and None/empty sides: commit_tree ids, stored bytes and Tree.items() order equal git's; flatten and tree_lookup_path invert the build; tree_changes under every want_unchanged/include_trees/change_type_same combination and path filters is sound, complete, duplicate-free, prunes identical subtrees, applies to flat(A) giving flat(B) and equals git's raw diff; RenameDetector output (5 configurations) stays apply-sound and finds every unique exact rename git -M100% finds; commit_tree_changes(A, delta) equals rebuilding B.",
        design_ref="DESIGN.md §4 C12",
        note="trusted: git 2.39.5 and vf/model/c12_model.py (compared with git in every run; disagreement = harness error); valid listings, MemoryObjectStore, SHA-1, plain path filters; similarity renames checked for soundness only; tree_changes_for_merge not covered",
    ),
    "C19": dict(
        level="exploration",
        technique="reference framer (from protocol-common.txt) + round trip under exhaustive / drawn read chunkings + exhaustive length-prefix enumeration + git differential (upload-pack peer under GIT_TRACE_PACKET, advertise-refs producer)",
        text="Every dulwich pkt-line/side-band writer is checked against an independent framer and every reader (read_pkt_line on Protocol/ReceivableProtocol, read_pkt_seq, eof/unread, PktLineParser+get_tail, side-band demux, PackStreamReader/Copier, read_pkt_refs_v1, extract_capabilities/want-line) must return the encoded sequence for all partitions of every stream <= 12 bytes (thorough 14) and for drawn partitions cutting inside length prefixes and bodies of long streams up to 65516-byte payloads; all 65536 length values (both hex cases) x 4 body lengths and all 14^4 lenient-alphabet prefixes must give frames or GitProtocolError; oversize payloads must be split or refused; git 2.39.5 must read dulwich-written requests packet for packet and dulwich must read git's ref advertisements.",
        design_ref="DESIGN.md §4 C19",
        note="trusted: vf/model/c19_ref.py framer/pack writer (self-tested vs git each run), git 2.39.5; Protocol(read=) only given exact reads, short reads only via ReceivableProtocol/PktLineParser; not covered: atheris, memory bound, read_pkt_refs_v2",
    ),
    "C08": dict(
        level="exploration",
        engine="vf+interpose",
        technique="deterministic schedule exploration (all schedules with <=1 preemption, DFS with bound 2-3 under a cap, seeded random preemption placements) of 2-3 actors with private Repo instances; oracle = Wing-Gong linearizability search against a dict model of the ref store + commit-ancestry and reader invariants",
        text="For every initial layout of the contended branch (absent / loose / packed / loose over stale packed) and every pair from a 13-operation catalogue (conditional and unconditional updates, creations, deletions, reads, listings, pack_refs, work-tree commits; plus two-op and three-actor programs) the recorded history must be explainable by some serial order consistent with real time in which each result is the model's, a failed operation is a no-op, a commit's parents are the branch value at its linearization point and the final refs equal the model's; readers never see values that were never written and bystander refs never disappear; all successful commits are in the final history.",
        design_ref="DESIGN.md §4 C08, §3 E2",
        note="interleavings at Python-level FS-call granularity on refs/, packed-refs and HEAD; listings judged per ref (no snapshot semantics demanded); one open known finding (deleted ref resurrected by a concurrent pack_refs)",
    ),
    "C01": dict(
        level="exploration",
        technique="model-based op sequences (every public setter/observer order) + round trip against an independent git-grammar serialiser that is validated by C git (hash-object, fsck --strict, mktree, fast-import, commit-tree, mktag) in every run",
        text="Over generated blobs, trees, commits and tags of git's canonical grammar (both hash formats, Rust and Python tree back ends), after every build order, parse entry point and sequence of public setters/observers, the id is the SHA-1/SHA-256 of type, length and content, the bytes are exactly those of the reference serialisation of the logical record (every other byte reproduced after a one-field edit), and the parsed fields equal the built ones. The same records are judged by git hash-object, fsck --strict, mktree (git does the sorting) and written independently by fast-import, commit-tree and mktag, byte-identically.",
        design_ref="DESIGN.md §4 C01",
        note="trusted base: hashlib; vf/model/c01_ref.py (self-tested and bulk-validated against git 2.39.5 each run; a disagreement is a harness error); canonical grammar = what git's writers emit; accepted-not-emitted inputs are checked for naming only; no gpg (signature blocks judged by the model + fsck)",
    ),
    "C09": dict(
        level="fault_enumeration",
        engine="vf+interpose",
        technique="exhaustive crash-point enumeration: directory snapshot before every interposed file-system event whose preceding events changed the state (plus power-loss variants of un-fsynced files), each snapshot judged by a fresh Repo, an independent closure walker and git fsck",
        text="For 23 repository-changing operations x object/ref storage layouts, every boundary between two file-system calls is materialised as a copy of the repository (process-crash model; with core.fsyncObjectFiles also power-loss variants) and must open, keep every ref at its old or new value naming an intact object with readable closure, keep every previously reachable object readable and identical, expose only valid packs/loose files, and pass git fsck. Exhaustive over crash points per scenario; scenarios are a fixed catalogue.",
        design_ref="DESIGN.md §4 C09, §3 E2",
        note="crash granularity = Python-level FS call (buffered data lost, completed writes kept); directory operations ordered/durable; leftover lock/temp files allowed; commit-graph validity is left to C14",
    ),
    "C07": dict(
        level="fault_enumeration",
        engine="vf+interpose",
        technique="stateless DFS over all interleavings of 2-3 lock-protocol actors at interposed file-system-call granularity + exhaustive single-fault injection (ENOSPC/EIO/EPERM/KeyboardInterrupt at every write/flush/fsync/chmod/rename/close event) in 18 dulwich routines; oracle = lock-ownership model over the trace + whole-file-content invariant read after every event",
        text="All interleavings of two actors (and all with <=2 preemptions of three) running open/write*/close|abort|drop|raise programs over GitFile on one path are executed deterministically; a reader probe after every event must see the initial content or some actor's complete buffer, and no actor may remove/rename a lock file another created. Every routine that writes through the protocol (index, refs, packed-refs, symrefs, config, loose objects, pack index, commit-graph, alternates, named files) is re-run with each of its write-side events failing: every file must hold its old or complete new content and no .lock may survive once references are dropped.",
        design_ref="DESIGN.md §4 C07, §3 E2",
        note="interleaving granularity is the Python-level FS call (exact for dulwich: no finer shared state); POSIX semantics of the local FS; __del__-based release counts as released",
    ),
    "C15": dict(
        level="exploration",
        engine="vf+sandbox",
        technique="differential testing of each Rust/Python twin on generated, mutated and exhaustively enumerated inputs in crash-isolating children; repository-level battery run with extensions on and forced off",
        text="parse_tree, sorted_tree_items, apply_delta, create_delta, bisect_find_sha, _merge_entries, _is_tree and _count_blocks are called with identical well-typed inputs on both implementations (extension rebuilt from the working tree): both must return equal values or both fail; Rust panics and process deaths are violations. Mode strings up to length 4 (thorough 5) and short deltas are enumerated exhaustively; a deterministic repository battery (commit_tree, tree_changes with rename detection, deltified pack round trip, tree re-parse) must give identical results pure vs rust.",
        design_ref="DESIGN.md §4 C15, §3 E1",
        note="alarmed domain = inputs well-typed per the annotations (id length 20/32, modes 0..2^32-1, '/'- and NUL-free names); debug-profile build",
    ),
    "C03": dict(
        level="exploration",
        engine="vf+sandbox",
        technique="exhaustive short deltas + Hypothesis-generated pairs and structured mutants, run in crash-isolating forked children under an address-space allowance; oracle = strict patch-delta reference (self-tested against git) + slice-decomposition predicate + C git as encoder and decoder",
        text="Round trip target==apply(create(base,target)) for encoder x decoder in {python, rust, C git}; every byte string up to length 4 (thorough 5) over an opcode-covering alphabet, all size headers up to 5 (thorough 8) varint bytes and thousands of structured mutants are decoded by both decoders: outcome must be declared-length output made of base/insert slices or ApplyDeltaError; process death, panic, other exceptions or >64 MiB + 8x(inputs+output) of address-space growth are violations. Exhaustive for the stated bounds; sampling beyond.",
        design_ref="DESIGN.md §4 C03, §3 E1",
        note="trusts the 60-line reference decoder (validated against git index-pack each run) and RLIMIT_AS accounting; Rust extension rebuilt from the working tree (debug profile)",
    ),
    "C20": dict(
        level="exploration",
        technique="exhaustive enumeration of short values over a special-character alphabet + Hypothesis operation sequences; round-trip and differential oracle against git config",
        text="Every value up to length 4 (thorough 5) over a 15-symbol alphabet covering all special characters is written by dulwich and read back by dulwich and by git config --list -z; generated set/add/remove/rewrite sequences are compared with a multimap model under git's case rules; values stored by git config are read by dulwich. Exhaustive for the stated bound, sampling beyond it.",
        design_ref="DESIGN.md §4 C20",
        note="git 2.39.5 is the trusted reference reader/writer; section names restricted to [A-Za-z][A-Za-z0-9-]*; no NUL in values",
    ),
}
