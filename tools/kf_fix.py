#!/venv/bin/python
"""tools/kf_fix.py <PROP> <id-prefix>=<commit> ...   move open findings from known_findings.d/<PROP>.json
into known_findings.json as fixed (entries whose id starts with the prefix); others stay open but are moved too."""
import json, os, sys
root = os.path.dirname(os.path.dirname(os.path.abspath(__file__)))
prop = sys.argv[1]
cm = dict(a.split("=") for a in sys.argv[2:])
src = os.path.join(root, "known_findings.d", prop + ".json")
dst = os.path.join(root, "known_findings.json")
d = json.load(open(src))
main = json.load(open(dst))
for e in d["findings"]:
    for pre, commit in cm.items():
        if e["id"].startswith(pre):
            e["status"] = "fixed"
            e["commit"] = commit
            e["line"] = f"fixed: property={prop} {commit} {e['what']}"
    if e["status"] == "open":
        e["line"] = f"open: property={prop} {e['what']}"
    main["findings"].append(e)
    print(e["line"][:160])
json.dump(main, open(dst, "w"), indent=1)
os.unlink(src)
