#!/venv/bin/python
"""Process one seeded change delivered by a sub-agent (tooling only).

  tools/seedproc.py <PROP> <seed-name e.g. C05-1> <worktree> <outdir> "<test files>" ["summary" "needs"]

Copies patch/demo/notes into seeded/<seed-name>/, confirms the demo (exit 1 in the worktree, exit 0 on /repo), runs the
given dulwich test files in the worktree, runs tools/sensitivity.py at VERIF_SEED 1..3 and writes meta.json.
"""
import json, os, shutil, subprocess, sys

ROOT = os.path.dirname(os.path.dirname(os.path.abspath(__file__)))
prop, name, wt, out, tests = sys.argv[1:6]
summary = sys.argv[6] if len(sys.argv) > 6 else ""
needs = sys.argv[7] if len(sys.argv) > 7 else ""
dst = os.path.join(ROOT, "seeded", name)
os.makedirs(dst, exist_ok=True)
for f in ("patch.diff", "demo.py", "notes.md"):
    shutil.copy(os.path.join(out, f), dst)
demo = os.path.join(dst, "demo.py")
w = subprocess.run(["/venv/bin/python", demo, wt], capture_output=True).returncode
wo = subprocess.run(["/venv/bin/python", demo, "/repo"], capture_output=True).returncode
t = subprocess.run(["/venv/bin/python", "-m", "pytest", "-q", "-p", "no:cacheprovider"] + tests.split(), cwd=wt, capture_output=True, text=True)
tl = t.stdout.strip().splitlines()[-1] if t.stdout.strip() else t.stderr[-200:]
print("demo with:", w, "without:", wo, "tests:", tl)
res = []
for s in (1, 2, 3):
    r = subprocess.run([os.path.join(ROOT, "tools", "sensitivity.py"), prop, os.path.join(dst, "patch.diff")], env=dict(os.environ, VERIF_SEED=str(s)), capture_output=True, text=True)
    line = r.stdout.strip().splitlines()[-1] if r.stdout.strip() else r.stderr[-300:]
    print("seed", s, line[:300])
    res.append((s, "caught" if " caught " in line else "MISSED", line[:400]))
meta = {
    "property": prop, "summary": summary, "needs": needs,
    "detected_by": f"./check {prop} quick: " + "; ".join(f"VERIF_SEED={s}: {v}" for s, v, _ in res),
    "detail": [l for _, _, l in res],
    "initially_missed": None,
    "produced_by": f"fresh sub-agent given only the property text and a scratch worktree ({wt}), nothing from /verif",
    "confirmed": {"demo_fails_with_change": w == 1, "demo_passes_without": wo == 0, "existing_suite": f"{tests}: {tl} (re-run by the coordinator in the worktree with the change); whole tests/ run by the sub-agent: only the BASELINE always_fail tests fail"},
    "ran": f"tools/sensitivity.py {prop} seeded/{name}/patch.diff at VERIF_SEED 1..3 (scratch worktree of /repo HEAD + VERIF_REPO; /repo itself untouched)",
}
json.dump(meta, open(os.path.join(dst, "meta.json"), "w"), indent=1)
