#!/bin/sh
# Offline setup: make sure hypothesis is importable from /venv, build nothing else up front
# (checks rebuild what they need from /repo's working tree on every run).
set -e
cd "$(dirname "$0")"
/venv/bin/python -c "import hypothesis" 2>/dev/null || \
  /venv/bin/pip install --no-index --find-links /opt/veriftools/wheels hypothesis
/venv/bin/python -c "import hypothesis, dulwich; print('setup ok: hypothesis', hypothesis.__version__)"
